(* Run.v — command dispatcher: one S-expression in, one S-expression out.
   This is what the OCaml driver calls; each command evaluates model functions on a case that the
   Python harness also runs on the rebuilt implementation. *)
From OptreeModel Require Export Wire Flatten Unflatten Spec Ops Registry Pickle Accessor.
From OptreeModel Require Ravel Dataclass Typing Faults Depth Alias Conc ArraySpec Construct Walk PrefixErr PrefixArr UpToArr JoinArr PathsArr AccArr ComposeArr TransformArr Repr.

Definition bad : sexp := SL [SI 2].   (* undecodable input: a harness error, never a verdict *)

(* cmd 1: everything the three traversals and unflatten say about one tree *)
Definition cmd_traverse (c : cfg) (o : obj) : sexp :=
  let f := flatten c o in
  SL [ enc_res (fun '(ls, sp) => SL [enc_objs ls; enc_spec sp]) f;
       enc_res (fun '(ps, ls, sp) => SL [SL (map enc_path ps); enc_objs ls; enc_spec sp])
               (flatten_with_path c o);
       enc_res enc_objs (tree_iter_list c o);
       match f with
       | Ok (ls, sp) => enc_res enc_obj (unflatten sp ls)
       | Err _ => SL []
       end ].

Definition enc_sspec (s : sspec) : sexp := enc_spec (spec_of s).
Definition enc_tentry (t : tentry) : sexp :=
  match t with TE e ec (a, b) k => SL [enc_key e; SI ec; SI a; SI b; SI (kind_code k)] end.

Fixpoint z_range (lo : Z) (n : nat) : list Z :=
  match n with O => [] | S n' => lo :: z_range (lo + 1) n' end.

(* cmd 2: what the treespec of one tree says about itself *)
Definition cmd_inspect (c : cfg) (o : obj) : sexp :=
  match flatten c o with
  | Err e => enc_err e
  | Ok (ls, sp) =>
    match sspec_of sp with
    | None => SL [SI 4]    (* flatten produced an array that does not decode: model bug *)
    | Some s =>
      let t := stree_of s in
      let n := st_node t in
      let idx := z_range (- Z.of_nat (narity n) - 1) (2 * narity n + 2) in
      SL [ SL [SI 0; SL [enc_nat (nleaves n); enc_nat (nnodes n); enc_nat (narity n);
                         SI (kind_code (nkind n)); enc_bool (is_leaf_node n);
                         enc_bool (st_is_one_level t);
                         let '(a, b) := node_type n in SL [SI a; SI b]]];
           SL (map enc_path (st_paths t));
           SL (map (fun a => SL (map enc_tentry a)) (st_accessors t));
           SL (map enc_sspec (ss_children s));
           SL (map (fun i => enc_res enc_sspec (ss_child s i)) idx);
           enc_keys (node_entries n);
           SL (map (fun i => enc_res enc_key (st_entry t i)) idx);
           enc_sspec (ss_one_level s);
           enc_bool (wf_stree t);
           (* the array-level Paths walk (PathsArr.v) on the node array itself *)
           enc_res (fun ps => SL (map enc_path ps)) (PathsArr.arr_paths sp);
           (* and the array-level Accessors walk (AccArr.v) *)
           enc_res (fun l => SL (map (fun a => SL (map enc_tentry a)) l)) (AccArr.arr_accessors sp) ]
    end
  end.

(* cmd 3: relations between the treespecs of two trees, and flatten_up_to of the first on the second *)
Definition cmd_pair (c1 : cfg) (o1 : obj) (c2 : cfg) (o2 : obj) : sexp :=
  match flatten c1 o1, flatten c2 o2 with
  | Ok (_, sp1), Ok (_, sp2) =>
    match sspec_of sp1, sspec_of sp2 with
    | Some s1, Some s2 =>
      SL [ SI 0;
           enc_bool (spec_eqb sp1 sp2); enc_bool (spec_eqb sp2 sp1);
           (* if the model's hash sequences agree the implementation's hashes must agree *)
           enc_bool (if spec_eqb sp1 sp2 then true else false);
           enc_bool (ss_is_prefix s1 s2 false); enc_bool (ss_is_prefix s1 s2 true);
           enc_bool (ss_is_prefix s2 s1 false); enc_bool (ss_is_prefix s2 s1 true);
           (* the registry in force when flatten_up_to runs is the second configuration's (the harness may
              re-register classes after the first treespec was made) *)
           enc_res enc_objs (ss_flatten_up_to (c_reg c2) s1 o2);
           enc_res enc_sspec (ss_broadcast s1 s2);
           enc_res enc_sspec (ss_broadcast s2 s1);
           enc_res enc_sspec (ss_compose s1 s2);
           enc_res enc_sspec (ss_transform_leaves s1 (Some s2));
           (* the array-level IsPrefix loop (PrefixArr.v), run on the two node arrays themselves *)
           enc_res enc_bool (PrefixArr.arr_is_prefix sp1 sp2 false); enc_res enc_bool (PrefixArr.arr_is_prefix sp1 sp2 true);
           enc_res enc_bool (PrefixArr.arr_is_prefix sp2 sp1 false); enc_res enc_bool (PrefixArr.arr_is_prefix sp2 sp1 true);
           (* the array-level FlattenUpTo loop (UpToArr.v) *)
           enc_res enc_objs (UpToArr.arr_flatten_up_to
                               {| c_nil := snil sp1; c_ns := sns sp1; c_pred := None; c_reg := c_reg c2; c_ins := []; c_limit := 0 |}
                               sp1 o2);
           (* the array-level BroadcastToCommonSuffix walk (JoinArr.v), both argument orders *)
           enc_res enc_spec (JoinArr.arr_broadcast sp1 sp2); enc_res enc_spec (JoinArr.arr_broadcast sp2 sp1);
           (* the array-level Compose pass (ComposeArr.v) *)
           enc_res enc_spec (ComposeArr.arr_compose sp1 sp2);
           (* the array-level Transform pass (TransformArr.v) with f_leaf = const sp2 *)
           enc_res enc_spec (TransformArr.arr_transform_leaves sp1 sp2) ]
    | _, _ => SL [SI 4]
    end
  | _, _ => SL [SI 5]     (* one of the trees does not flatten: not a case for this command *)
  end.

(* cmd 30: transform(None, f_leaf) where the i-th call of f_leaf answers the treespec of the i-th tree
   (TransformArr.arr_transform_gen, the array-level pass) *)
Definition cmd_transform_gen (c0 : cfg) (o0 : obj) (inn : list (cfg * obj)) : sexp :=
  match flatten c0 o0, mapM (fun p => flatten (fst p) (snd p)) inn with
  | Ok (_, sp0), Ok rs => SL [SI 0; enc_res enc_spec (TransformArr.arr_transform_gen sp0 (map snd rs))]
  | _, _ => SL [SI 5]
  end.

(* cmd 31: transform(f_node, f_leaf) with one answer per node of the array in call order (None: the
   function of that node's class is absent or returned its argument) — TransformArr.arr_transform_all *)
Fixpoint flatten_answers (l : list (option (cfg * obj))) : res (list (option spec)) :=
  match l with
  | [] => Ok []
  | None :: l' => do r <- flatten_answers l' ;; Ok (None :: r)
  | Some (c, o) :: l' => do f <- flatten c o ;; do r <- flatten_answers l' ;; Ok (Some (snd f) :: r)
  end.
Definition cmd_transform_all (c0 : cfg) (o0 : obj) (answers : list (option (cfg * obj))) : sexp :=
  match flatten c0 o0, flatten_answers answers with
  | Ok (_, sp0), Ok ans => SL [SI 0; enc_res enc_spec (TransformArr.arr_transform_all sp0 ans)]
  | _, _ => SL [SI 5]
  end.

(* cmd 32: all_leaves(xs) and tree_is_leaf of every element *)
Definition cmd_all_leaves (c : cfg) (xs : list obj) : sexp :=
  SL [SI 0; enc_bool (all_leaves c xs); SL (map (fun x => enc_bool (tree_is_leaf c x)) xs)].

(* cmd 28: repr(treespec) as the token list of ToStringImpl (Repr.v) *)
Definition lit_code (l : Repr.lit) : Z :=
  match l with
  | Repr.LStar => 0 | Repr.LNone => 1 | Repr.LLp => 2 | Repr.LRp => 3 | Repr.LComma => 4 | Repr.LSep => 5
  | Repr.LLb => 6 | Repr.LRb => 7 | Repr.LLc => 8 | Repr.LRc => 9 | Repr.LColon => 10 | Repr.LOD => 11
  | Repr.LDD => 12 | Repr.LDDmid => 13 | Repr.LDDend => 14 | Repr.LDeque => 15 | Repr.LMaxlen => 16
  | Repr.LCust => 17 | Repr.LCustMid => 18 | Repr.LCustEnd => 19 | Repr.LEq => 20 | Repr.LHead => 21
  | Repr.LNil => 22 | Repr.LNsPre => 23
  end.
Definition enc_rtok (t : Repr.rtok) : sexp :=
  match t with
  | Repr.RL l => SI (lit_code l)
  | Repr.RKey k => SL [SI 1; enc_key k]
  | Repr.RNtName cls ar => SL [SI 2; SI cls; enc_nat ar]
  | Repr.RNtField cls ar i => SL [SI 3; SI cls; enc_nat ar; enc_nat i]
  | Repr.RSsName cls => SL [SI 4; SI cls]
  | Repr.RSsField cls i => SL [SI 5; SI cls; enc_nat i]
  | Repr.RCustName r => SL [SI 6; SI (match r with Some x => rcls x | None => -1 end)]
  | Repr.RMeta m eb => SL [SI 7; SI m; enc_ebeh eb]
  | Repr.RFactory f => SL [SI 8; SI f]
  | Repr.RMaxlen m => SL [SI 9; SI m]
  | Repr.RNs ns => SL [SI 10; SI ns]
  end.
Definition cmd_repr (c : cfg) (o : obj) : sexp :=
  match flatten c o with
  | Err e => enc_err e
  | Ok (_, sp) => enc_res (fun l => SL (map enc_rtok l)) (Repr.arr_repr sp)
  end.

(* cmd 29: the references a leaf iterator owns after k successful next() calls (Alias.v iter_owned):
   the objects pending on its agenda (the collector reports them together with the root and the predicate) *)
Fixpoint iter_advance (c : cfg) (steps k : nat) (ag : agenda) : res agenda :=
  match k with
  | O => Ok ag
  | S k' =>
    do r <- iter_next c steps ag ;;
    match r with
    | None => Ok []
    | Some (_, ag') => iter_advance c steps k' ag'
    end
  end.
Definition cmd_iter_gc (c : cfg) (o : obj) (k : nat) : sexp :=
  match iter_advance c (S (iter_bound c o)) k [(o, S (c_limit c))] with
  | Err e => enc_err e
  | Ok ag =>
    let s := {| Alias.it_root := o; Alias.it_agenda := ag;
                Alias.it_has_pred := match c_pred c with Some _ => true | None => false end |} in
    SL [SI 0;
        enc_objs (flat_map (fun r => match r with Alias.IPending x => [x] | _ => [] end) (Alias.iter_owned s));
        enc_bool (existsb (fun r => match r with Alias.IRoot => true | _ => false end) (Alias.iter_owned s));
        enc_bool (existsb (fun r => match r with Alias.IPredicate => true | _ => false end) (Alias.iter_owned s))]
  end.

(* cmd 25: prefix_errors(prefix tree, full tree) — the list of (key path, error kind) *)
Definition enc_pek (k : PrefixErr.pek) : sexp :=
  SI match k with PrefixErr.PEType => 0 | PrefixErr.PEKeys => 1 | PrefixErr.PEArity => 2 | PrefixErr.PEMeta => 3 end.
Definition cmd_prefix_errors (c : cfg) (p f : obj) : sexp :=
  enc_res (fun l => SL (map (fun '(pa, k) => SL [enc_path pa; enc_pek k]) l)) (PrefixErr.prefix_errors c p f).

(* the finite family of mapped functions used by the harness *)
Definition fun_of_code (code : Z) (i : nat) (row : list obj) : res obj :=
  let base (k : Z) : res obj :=
    match row with
    | [] => Err InternalError
    | x :: _ =>
      if Z.eqb k 0 then Ok x
      else if Z.eqb k 1 then Ok (Node HTuple row)
      else Ok (Node HList [x; Leaf 7])
    end in
  if Z.leb 100 code then
    if Nat.eqb i (Z.to_nat (code - 100)) then Err (UserExn 77) else base 0
  else base code.

(* cmd 4: tree_map with a recording function *)
Definition cmd_map (c : cfg) (code : Z) (t : obj) (rests : list obj) : sexp :=
  let '(r, tr) := tree_map_trace c (fun_of_code code) t rests in
  SL [enc_res enc_obj r; SL (map enc_objs tr)].

(* cmd 5: the broadcast family on two trees *)
Definition cmd_broadcast (c : cfg) (t1 t2 : obj) : sexp :=
  SL [ enc_res enc_obj (tree_broadcast_prefix c t1 t2);
       enc_res enc_objs (broadcast_prefix c t1 t2);
       enc_res (fun '(a, b) => SL [enc_obj a; enc_obj b]) (tree_broadcast_common c t1 t2);
       enc_res (fun '(a, b) => SL [enc_objs a; enc_objs b]) (broadcast_common c t1 t2) ].

(* cmd 6: tree_transpose; the outer and inner treespecs are those of two trees *)
Definition cmd_transpose (c : cfg) (oo oi t : obj) : sexp :=
  match flatten c oo, flatten c oi with
  | Ok (_, so), Ok (_, si) =>
    match sspec_of so, sspec_of si with
    | Some o, Some i =>
      let r := tree_transpose c o i t in
      SL [SI 0; enc_res enc_obj r;
          (* transposing back *)
          match r with
          | Ok t' => enc_res enc_obj (tree_transpose c i o t')
          | Err _ => SL []
          end]
    | _, _ => SL [SI 4]
    end
  | _, _ => SL [SI 5]
  end.

(* ---------- cmd 7: registry histories ---------- *)
Definition dec_rclass (tag n : Z) : rclass :=
  if Z.eqb tag 0 then RPlain n else if Z.eqb tag 1 then RNamed n else if Z.eqb tag 2 then RStruct n
  else if Z.eqb tag 3 then RBuiltin n else RNonClass.
Definition dec_nsarg (tag n : Z) : nsarg :=
  if Z.eqb tag 0 then NGlobal else if Z.eqb tag 1 then NName n else if Z.eqb tag 2 then NEmpty else NNotString.
Definition dec_op (s : sexp) : option op :=
  match s with
  | SL [SI 0; SI ct; SI cn; SI nt; SI nn; SI pet] =>
    Some (ORegister (dec_rclass ct cn) (dec_nsarg nt nn) (negb (Z.eqb pet 0)))
  | SL [SI 1; SI ct; SI cn; SI nt; SI nn] => Some (OUnregister (dec_rclass ct cn) (dec_nsarg nt nn))
  | _ => None
  end.

Definition probe_classes : list rclass := [RPlain 0; RPlain 1; RNamed 0; RStruct 0].
Definition probe_namespaces : list Z := [0; 1; 2].

Definition rid_of (o : option reg) : Z := match o with Some r => rid r | None => 0 end.

Definition observe_registry (s : rstate) : sexp :=
  SL (flat_map (fun c =>
        map (fun n =>
               SL [SI (rid_of (engine_lookup s n c)); SI (rid_of (python_lookup s n c));
                   SI (rid_of (find_reg (rclass_code c) n (python_all s n)
                                 (* entries of get(namespace=n) are keyed by class: an entry with this
                                    class in namespace n, else the global one *)
                               ));
                   SI (match find_reg (rclass_code c) n (python_all s n) with
                       | Some _ => 0
                       | None => rid_of (find_reg (rclass_code c) 0 (python_all s n))
                       end)])
            probe_namespaces) probe_classes).

Definition enc_outcome (o : outcome) : sexp :=
  match o with OutOk => SL [SI 0] | OutErr e => enc_err e end.

Fixpoint run_history (s : rstate) (ops : list op) : list sexp :=
  match ops with
  | [] => []
  | o :: ops' =>
    let '(s', out) := step s o in
    SL [enc_outcome out; observe_registry s'] :: run_history s' ops'
  end.

(* ---------- cmd 8: dict-order mode programs ---------- *)
Fixpoint dec_mprog (fuel : nat) (s : sexp) : option mprog :=
  match fuel with
  | O => None
  | S fuel' =>
    match s with
    | SL [SI 0] => Some MObserve
    | SL (SI 1 :: SI mode :: SI n :: SI raises :: body) =>
      omap (fun b => MWith (negb (Z.eqb mode 0)) n b (negb (Z.eqb raises 0))) (omapM (dec_mprog fuel') body)
    | _ => None
    end
  end.

Definition enc_mstate (s : mstate) : sexp :=
  SL (map (fun n => enc_bool (mode_get s n)) probe_namespaces ++
      map (fun n => enc_bool (mode_effective s n)) probe_namespaces).

Definition cmd_mode (progs : list mprog) : sexp :=
  (* a sequence of top-level statements; an exception escaping one of them is caught at top level *)
  let '(final, obs) :=
    fold_left (fun '(st, acc) p => let '(st', o, _) := mrun st p in (st', acc ++ o)) progs ([], []) in
  SL [enc_mstate final; SL (map enc_mstate obs)].

(* cmd 9: pickle under one registry, load under another *)
Definition cmd_pickle (c : cfg) (o : obj) (regs2 : list reg) : sexp :=
  match flatten c o with
  | Err e => enc_err e
  | Ok (ls, sp) =>
    let r := from_pickle regs2 (to_pickle sp) in
    SL [SI 0; enc_res enc_spec r;
        match r with
        | Ok sp2 =>
          (* is the loaded treespec == the original; == a treespec flattened afresh under regs2 *)
          SL [enc_bool (spec_eqb sp2 sp);
              match flatten {| c_nil := c_nil c; c_ns := c_ns c; c_pred := c_pred c; c_reg := regs2;
                               c_ins := c_ins c; c_limit := c_limit c |} o with
              | Ok (_, sp3) => enc_bool (spec_eqb sp2 sp3)
              | Err _ => SI 2
              end;
              enc_res enc_obj (unflatten sp2 ls)]
        | Err _ => SL []
        end]
  end.

(* cmd 10: apply every path of the tree to the tree *)
Definition cmd_access (c : cfg) (o : obj) : sexp :=
  match flatten_with_path c o with
  | Err e => enc_err e
  | Ok (ps, ls, sp) =>
    SL [SI 0; SL (map (fun p => match get_path o p with Some x => SL [SI 0; enc_obj x] | None => SL [SI 1] end) ps);
        enc_objs ls]
  end.

(* cmd 11: ravel / unravel bookkeeping on a chain of dtypes (promotion = max, casts = identity on
   the small integers the harness uses) *)
Definition dec_arr (s : sexp) : option Ravel.arr :=
  match s with
  | SL [SL sh; SI d; SL da] =>
    obind (omapM dec_nat sh) (fun sh' => obind (omapM dec_Z da) (fun da' =>
      Some {| Ravel.shape := sh'; Ravel.dtype := d; Ravel.data := da' |}))
  | _ => None
  end.
Definition enc_arr (a : Ravel.arr) : sexp :=
  SL [SL (map enc_nat (Ravel.shape a)); SI (Ravel.dtype a); SL (map SI (Ravel.data a))].
Definition chain_promote (ds : list Z) : Z := fold_right Z.max 0 ds.
Definition cmd_ravel (leaves : list Ravel.arr) (v : list Z) (vd : Z) : sexp :=
  let '(flat, d) := Ravel.ravel_leaves chain_promote (fun _ _ x => x) leaves in
  SL [SL (map SI flat); SI d;
      match Ravel.unravel chain_promote (fun _ _ x => x) leaves flat d with
      | Ravel.ROk l => SL (SI 0 :: map enc_arr l) | Ravel.RValueError => SL [SI 1] end;
      match Ravel.unravel chain_promote (fun _ _ x => x) leaves v vd with
      | Ravel.ROk l => SL (SI 0 :: map enc_arr l) | Ravel.RValueError => SL [SI 1] end].

(* cmd 12: the field partition of an optree dataclass *)
Definition dec_dfield (s : sexp) : option Dataclass.dfield :=
  match s with
  | SL [SI n; SI i; SI p] =>
    Some {| Dataclass.fname := n; Dataclass.finit := negb (Z.eqb i 0); Dataclass.fnode := negb (Z.eqb p 0) |}
  | _ => None
  end.
Definition cmd_dataclass (fs : list Dataclass.dfield) : sexp :=
  SL [enc_bool (Dataclass.layout_ok fs);
      SL (map (fun f => SI (Dataclass.fname f)) (Dataclass.children_fields fs));
      SL (map (fun f => SI (Dataclass.fname f)) (Dataclass.metadata_fields fs))].

(* cmd 13: the class recognisers on a trait vector *)
Definition dec_akind (z : Z) : Typing.akind :=
  if Z.eqb z 0 then Typing.AMissing else if Z.eqb z 1 then Typing.AExact
  else if Z.eqb z 2 then Typing.ASubclass else Typing.AOther.
Definition cmd_traits (l : list Z) : sexp :=
  match l with
  | [a; b; c; d; e; f; g; h; i; j; k] =>
    let nz (z : Z) := negb (Z.eqb z 0) in
    let t := {| Typing.t_is_type := nz a; Typing.t_tuple_sub := nz b; Typing.t_fields := dec_akind c;
                Typing.t_fields_all_str := nz d; Typing.t_make := nz e; Typing.t_asdict := nz f;
                Typing.t_bases_tuple := nz g; Typing.t_nf := dec_akind h; Typing.t_nsf := dec_akind i;
                Typing.t_nuf := dec_akind j; Typing.t_basetype := nz k |} in
    SL [enc_bool (Typing.engine_is_namedtuple t); enc_bool (Typing.python_is_namedtuple true t);
        enc_bool (Typing.engine_is_structseq t); enc_bool (Typing.python_is_structseq t)]
  | _ => bad
  end.

(* cmd 14: flatten with a fault injected at the k-th callback (k = 0: no fault) *)
Definition cmd_fault (c : cfg) (o : obj) (k : Z) : sexp :=
  let fault := if Z.eqb k 0 then None else Some (Z.to_nat k) in
  match Faults.flatf c fault (S (c_limit c)) 0 o with
  | Ok (ls, ns, _, n) => SL [SI 0; enc_objs ls; enc_nat n; enc_nat (length ns)]
  | Err e => enc_err e
  end.

(* cmd 15: what the key sort does when comparisons raise *)
Definition dec_cmp_exn (z : Z) : Faults.cmp_exn :=
  if Z.eqb z 0 then Faults.CNoExn else if Z.eqb z 1 then Faults.CTypeError else Faults.COther z.
Definition cmd_sort_fault (a b : Z) : sexp :=
  match Faults.sort_decide (dec_cmp_exn a) (dec_cmp_exn b) with
  | Faults.SSorted1 => SL [SI 0; SI 1]
  | Faults.SSorted2 => SL [SI 0; SI 2]
  | Faults.SInsertion => SL [SI 0; SI 3]
  | Faults.SRaise e => SL [SI 1; SI 10; SI e]
  end.

(* cmd 16: a list / dict mutated by user code while the recursive flatten walks it *)
Definition dec_mut (s : sexp) : option Depth.mut :=
  match s with
  | SL [SI 0; _] => Some Depth.MNone
  | SL [SI 1; _] => Some Depth.MDelFirst
  | SL [SI 2; _] => Some Depth.MDelLast
  | SL [SI 3; _] => Some Depth.MClear
  | SL [SI 4; SI x] => Some (Depth.MAppend x)
  | _ => None
  end.
Definition dec_zpair (s : sexp) : option (Z * Z) :=
  match s with SL [SI k; SI v] => Some (k, v) | _ => None end.
Definition enc_zres (r : res (list Z)) : sexp := enc_res (fun l => SL (map SI l)) r.
Definition cmd_mut_list (script : list Depth.mut) (l : list Z) : sexp :=
  enc_zres (Depth.flatten_list_mut true script l).
Definition cmd_mut_dict (script : list Depth.mut) (d : list (Z * Z)) : sexp :=
  enc_zres (Depth.flatten_dict_mut true script d).

(* cmd 17: the depth the traversals reach and whether every visited custom node behaves *)
Definition cmd_depth (c : cfg) (o : obj) : sexp :=
  SL [enc_nat (Depth.vdepth c o); enc_bool (Depth.clean c o); enc_bool (wf_obj o);
      enc_bool (Nat.leb (Depth.vdepth c o) (S (c_limit c)))].

(* cmd 18: which references each node of the treespec owns, and which the GC traversal reports *)
Definition enc_slots (l : list Alias.slot) : sexp :=
  SL (map (fun s => SI match s with Alias.SData => 0 | Alias.SEntries => 1 | Alias.SOrig => 2 end) l).
Definition cmd_gc (c : cfg) (o : obj) : sexp :=
  match flatten c o with
  | Err e => enc_err e
  | Ok (_, sp) => SL [SI 0; SL (map enc_slots (Alias.spec_owned sp));
                      SL (map enc_slots (Alias.spec_visited Alias.GcAll sp))]
  end.

(* cmd 19: a user program mutating every list it can reach around one dict treespec *)
Definition dec_aop (s : sexp) : option Alias.aop :=
  match s with
  | SL [SI 0; SI n; ks] => omap (fun k => Alias.AMutate (Z.to_nat n) k) (dec_list dec_key ks)
  | SL [SI 1] => Some Alias.AEntries
  | _ => None
  end.
Definition enc_okeys (o : option (list key)) : sexp :=
  match o with Some ks => SL [SI 0; enc_keys ks] | None => SL [SI 1] end.
Definition cmd_alias (ks : list key) (p : list Alias.aop) : sexp :=
  let h0 := {| Alias.cells := [(0%nat, ks)]; Alias.next := 1%nat |} in
  match Alias.flatten_dict true h0 0%nat with
  | None => bad
  | Some (h1, s) =>
    let obs u := let '(a, b) := Alias.observe (Alias.u_heap u) s in SL [enc_okeys a; enc_okeys b] in
    let u0 := {| Alias.u_heap := h1; Alias.u_held := [0%nat] |} in
    SL (obs u0 ::
        snd (fold_left (fun '(u, acc) o => let u' := Alias.astep true s u o in (u', acc ++ [obs u'])) p (u0, [])))
  end.

(* cmd 20: does each extracted lock program obey the discipline (Conc.wf [])? *)
Definition dec_act (s : sexp) : option Conc.act :=
  match s with
  | SL [SI 0; SI l] => Some (Conc.ALock (Z.to_nat l))
  | SL [SI 1; SI l] => Some (Conc.AUnlock (Z.to_nat l))
  | SL [SI 2] => Some Conc.ACall
  | SL [SI 3] => Some Conc.AWork
  | _ => None
  end.
Definition cmd_wf (ps : list (list Conc.act)) : sexp := SL (map (fun p => enc_bool (Conc.wf [] p)) ps).

(* cmd 21: PyTreeSpec::Children as the engine computes it: the index walk over the node array *)
Definition cmd_arr_children (c : cfg) (o : obj) : sexp :=
  match flatten c o with
  | Err e => enc_err e
  | Ok (_, sp) =>
    enc_res (fun l => SL (map (fun a => SL (map enc_node a)) l)) (ArraySpec.arr_children (trav sp))
  end.

(* cmd 22: treespec_from_collection on a one-level collection whose children are the treespecs of
   trees flattened under their own (none_is_leaf, namespace) *)
Definition dec_child (regs : list reg) (ins : list Z) (limit : nat) (s : sexp) : option (cfg * obj) :=
  match s with
  | SL [SI nl; SI ns; o] =>
    omap (fun o' => ({| c_nil := negb (Z.eqb nl 0); c_ns := ns; c_pred := None; c_reg := regs;
                        c_ins := ins; c_limit := limit |}, o')) (dec_obj o)
  | _ => None
  end.
Definition cmd_construct (c : cfg) (h : obj) (children : list (cfg * obj)) : sexp :=
  match h with
  | Node hd _ =>
    match omapM (fun '(ci, oi) => match flatten ci oi with
                                  | Ok (_, sp) => sspec_of sp
                                  | Err _ => None end) children with
    | None => SL [SI 5]
    | Some specs => enc_res enc_sspec (Construct.make_from_collection c hd specs)
    end
  | _ => bad
  end.

(* cmd 23: does FromPickleable accept this node array? (0 accepted / RuntimeError / InternalError) *)
Definition dec_kind (z : Z) : option kind :=
  if Z.eqb z 0 then Some KdCustom else if Z.eqb z 1 then Some KdLeaf else if Z.eqb z 2 then Some KdNone
  else if Z.eqb z 3 then Some KdTuple else if Z.eqb z 4 then Some KdList else if Z.eqb z 5 then Some KdDict
  else if Z.eqb z 6 then Some KdNamed else if Z.eqb z 7 then Some KdODict else if Z.eqb z 8 then Some KdDDict
  else if Z.eqb z 9 then Some KdDeque else if Z.eqb z 10 then Some KdStruct else None.
Definition dec_ndata (s : sexp) : option ndata :=
  match s with
  | SL [SI 0] => Some DNone
  | SL (SI 1 :: l) => omap DKeys (omapM dec_key l)
  | SL (SI 2 :: SI f :: l) => omap (DDefault f) (omapM dec_key l)
  | SL [SI 3; SI c] => Some (DClass c)
  | SL [SI 4] => Some (DMaxlen None)
  | SL [SI 4; SI m] => Some (DMaxlen (Some m))
  | SL [SI 5; SI m; e] => omap (DMeta m) (dec_ebeh e)
  | _ => None
  end.
Definition dec_okeys (s : sexp) : option (option (list key)) :=
  match s with
  | SL [] => Some None
  | SL (SI 1 :: l) => omap Some (omapM dec_key l)
  | _ => None
  end.
Definition dec_node (s : sexp) : option node :=
  match s with
  | SL [SI k; SI ar; d; e; cu; SI nl; SI nn; og] =>
    obind (dec_kind k) (fun k' => obind (dec_ndata d) (fun d' => obind (dec_okeys e) (fun e' =>
    obind (dec_okeys og) (fun og' =>
    let cu' := match cu with SL [SI cls] => Some {| rcls := cls; rns := 0; rid := 0; rpet := 0 |} | _ => None end in
    Some {| nkind := k'; narity := Z.to_nat ar; ndat := d'; nentries := e'; ncustom := cu';
            nleaves := Z.to_nat nl; nnodes := Z.to_nat nn; norig := og' |}))))
  | _ => None
  end.
Definition dec_pnode_arr (s : sexp) : option (list node) :=
  match s with SL l => omapM dec_node l | _ => None end.
Definition cmd_validate (regs : list reg) (nl : bool) (nsp : Z) (ns : list node) : sexp :=
  match from_pickle regs (map to_pnode ns, nl, nsp) with
  | Ok _ => SL [SI 0]
  | Err e => enc_err e
  end.

(* cmd 24: PyTreeSpec.traverse with recording leaf / node functions *)
Definition wfun_of (is_leaf_fn : bool) (code : Z) : option Walk.wfun :=
  if Z.eqb code 0 then None
  else Some (fun i x =>
    if Z.eqb code 1 then Ok x
    else if Z.eqb code 2 then Ok (Node (if is_leaf_fn then HTuple else HList) [x])
    else if Nat.eqb i (Z.to_nat (code - 100)) then Err (UserExn 77) else Ok x).
Definition enc_wev (e : Walk.wev) : sexp :=
  match e with Walk.WLeaf x => SL [SI 0; enc_obj x] | Walk.WNode x => SL [SI 1; enc_obj x] end.
Definition cmd_traverse_fn (c : cfg) (o : obj) (fl fn : Z) : sexp :=
  match flatten c o with
  | Err e => enc_err e
  | Ok (ls, sp) =>
    let '(r, tr) := Walk.traverse (wfun_of true fl) (wfun_of false fn) sp ls in
    SL [SI 0; enc_res enc_obj r; SL (map enc_wev tr)]
  end.

Definition run (s : sexp) : sexp :=
  match s with
  | SL [SI 1; c; o] =>
    match dec_cfg c, dec_obj o with
    | Some c', Some o' => cmd_traverse c' o'
    | _, _ => bad
    end
  | SL [SI 2; c; o] =>
    match dec_cfg c, dec_obj o with
    | Some c', Some o' => cmd_inspect c' o'
    | _, _ => bad
    end
  | SL [SI 3; c1; o1; c2; o2] =>
    match dec_cfg c1, dec_obj o1, dec_cfg c2, dec_obj o2 with
    | Some c1', Some o1', Some c2', Some o2' => cmd_pair c1' o1' c2' o2'
    | _, _, _, _ => bad
    end
  | SL [SI 4; c; SI code; t; SL rests] =>
    match dec_cfg c, dec_obj t, omapM dec_obj rests with
    | Some c', Some t', Some rs => cmd_map c' code t' rs
    | _, _, _ => bad
    end
  | SL [SI 5; c; t1; t2] =>
    match dec_cfg c, dec_obj t1, dec_obj t2 with
    | Some c', Some a, Some b => cmd_broadcast c' a b
    | _, _, _ => bad
    end
  | SL [SI 6; c; oo; oi; t] =>
    match dec_cfg c, dec_obj oo, dec_obj oi, dec_obj t with
    | Some c', Some a, Some b, Some t' => cmd_transpose c' a b t'
    | _, _, _, _ => bad
    end
  | SL [SI 7; SI we; SL ops] =>
    match omapM dec_op ops with
    | Some ops' => SL (run_history (init_state (negb (Z.eqb we 0))) ops')
    | None => bad
    end
  | SL [SI 8; SL progs] =>
    match omapM (dec_mprog 64) progs with
    | Some ps => cmd_mode ps
    | None => bad
    end
  | SL [SI 9; c; o; regs2] =>
    match dec_cfg c, dec_obj o, dec_list dec_reg regs2 with
    | Some c', Some o', Some r2 => cmd_pickle c' o' r2
    | _, _, _ => bad
    end
  | SL [SI 10; c; o] =>
    match dec_cfg c, dec_obj o with
    | Some c', Some o' => cmd_access c' o'
    | _, _ => bad
    end
  | SL [SI 11; SL leaves; SL v; SI vd] =>
    match omapM dec_arr leaves, omapM dec_Z v with
    | Some l, Some v' => cmd_ravel l v' vd
    | _, _ => bad
    end
  | SL [SI 12; SL fs] =>
    match omapM dec_dfield fs with
    | Some fs' => cmd_dataclass fs'
    | None => bad
    end
  | SL [SI 13; SL tr] =>
    match omapM dec_Z tr with
    | Some l => cmd_traits l
    | None => bad
    end
  | SL [SI 14; c; o; SI k] =>
    match dec_cfg c, dec_obj o with
    | Some c', Some o' => cmd_fault c' o' k
    | _, _ => bad
    end
  | SL [SI 15; SI a; SI b] => cmd_sort_fault a b
  | SL [SI 16; SI 0; SL script; SL data] =>
    match omapM dec_mut script, omapM dec_Z data with
    | Some sc, Some l => cmd_mut_list sc l
    | _, _ => bad
    end
  | SL [SI 16; SI 1; SL script; SL data] =>
    match omapM dec_mut script, omapM dec_zpair data with
    | Some sc, Some d => cmd_mut_dict sc d
    | _, _ => bad
    end
  | SL [SI 16; SI 2; SL script; SL data; SI n] =>
    match omapM dec_mut script, omapM dec_Z data with
    | Some sc, Some l => enc_zres (Depth.unflatten_leaves_mut true sc (Z.to_nat n) l)
    | _, _ => bad
    end
  | SL [SI 18; c; o] =>
    match dec_cfg c, dec_obj o with
    | Some c', Some o' => cmd_gc c' o'
    | _, _ => bad
    end
  | SL [SI 19; ks; SL ops] =>
    match dec_list dec_key ks, omapM dec_aop ops with
    | Some ks', Some p => cmd_alias ks' p
    | _, _ => bad
    end
  | SL [SI 20; SL ps] =>
    match omapM (dec_list dec_act) ps with
    | Some l => cmd_wf l
    | None => bad
    end
  | SL [SI 21; c; o] =>
    match dec_cfg c, dec_obj o with
    | Some c', Some o' => cmd_arr_children c' o'
    | _, _ => bad
    end
  | SL [SI 22; c; h; SL children] =>
    match dec_cfg c, dec_obj h with
    | Some c', Some h' =>
      match omapM (dec_child (c_reg c') (c_ins c') (c_limit c')) children with
      | Some ch => cmd_construct c' h' ch
      | None => bad
      end
    | _, _ => bad
    end
  | SL [SI 23; c; SI nl; SI nsp; arr] =>
    match dec_cfg c, dec_pnode_arr arr with
    | Some c', Some ns => cmd_validate (c_reg c') (negb (Z.eqb nl 0)) nsp ns
    | _, _ => bad
    end
  | SL [SI 24; c; o; SI fl; SI fn] =>
    match dec_cfg c, dec_obj o with
    | Some c', Some o' => cmd_traverse_fn c' o' fl fn
    | _, _ => bad
    end
  | SL [SI 17; c; o] =>
    match dec_cfg c, dec_obj o with
    | Some c', Some o' => cmd_depth c' o'
    | _, _ => bad
    end
  | SL [SI 27; SL fs] =>
    (* DataclassEntry: the field each integer entry names *)
    match omapM dec_dfield fs with
    | Some fs' =>
      SL [SI 0; SL (map (fun i => match Dataclass.dc_entry_field fs' i with Some n => SI n | None => SL [] end)
                        (seq 0 (length (Dataclass.init_fields fs'))))]
    | None => bad
    end
  | SL [SI 29; c; o; SI k] =>
    match dec_cfg c, dec_obj o with
    | Some c', Some o' => cmd_iter_gc c' o' (Z.to_nat k)
    | _, _ => bad
    end
  | SL [SI 28; c; o] =>
    match dec_cfg c, dec_obj o with
    | Some c', Some o' => cmd_repr c' o'
    | _, _ => bad
    end
  | SL [SI 30; c; o; SL inn] =>
    match dec_cfg c, dec_obj o,
          omapM (fun x => match x with
                          | SL [ci; oi] => match dec_cfg ci, dec_obj oi with
                                           | Some ci', Some oi' => Some (ci', oi')
                                           | _, _ => None
                                           end
                          | _ => None
                          end) inn with
    | Some c', Some o', Some inn' => cmd_transform_gen c' o' inn'
    | _, _, _ => bad
    end
  | SL [SI 31; c; o; SL answers] =>
    match dec_cfg c, dec_obj o,
          omapM (fun x => match x with
                          | SL [] => Some None
                          | SL [ci; oi] => match dec_cfg ci, dec_obj oi with
                                           | Some ci', Some oi' => Some (Some (ci', oi'))
                                           | _, _ => None
                                           end
                          | _ => None
                          end) answers with
    | Some c', Some o', Some answers' => cmd_transform_all c' o' answers'
    | _, _, _ => bad
    end
  | SL [SI 32; c; SL xs] =>
    match dec_cfg c, omapM dec_obj xs with
    | Some c', Some xs' => cmd_all_leaves c' xs'
    | _, _ => bad
    end
  | SL [SI 25; c; p; f] =>
    match dec_cfg c, dec_obj p, dec_obj f with
    | Some c', Some p', Some f' => cmd_prefix_errors c' p' f'
    | _, _, _ => bad
    end
  | _ => bad
  end.
