(* PrefixErr.v — optree/ops.py prefix_errors: the tree-vs-tree diagnostic walk (the third decider of
   the prefix relation, written in Python on top of tree_is_leaf and tree_flatten_one_level).
   The result is the list of (key path, kind of error) in the order the generator yields them. *)
From OptreeModel Require Export Spec Construct.

Inductive pek := PEType | PEKeys | PEArity | PEMeta.

(* type(prefix_subtree) is type(full_subtree); a namedtuple / struct sequence class has a fixed number
   of fields, so two objects of one such class have the same number of children *)
Definition same_type (a b : obj) : bool :=
  match a, b with
  | Node ha ca, Node hb cb =>
    match ha, hb with
    | HNone, HNone | HTuple, HTuple | HList, HList => true
    | HDict _, HDict _ | HODict _, HODict _ | HDDict _ _, HDDict _ _ => true
    | HDeque _, HDeque _ => true
    | HNamed x, HNamed y | HStruct x, HStruct y => Z.eqb x y && Nat.eqb (length ca) (length cb)
    | HCustom x _ _, HCustom y _ _ => Z.eqb x y
    | _, _ => false
    end
  | _, _ => false
  end.

Definition is_dict_obj (o : obj) : bool :=
  match o with Node (HDict _ | HODict _ | HDDict _ _) _ => true | _ => false end.
Definition is_deque_obj (o : obj) : bool :=
  match o with Node (HDeque _) _ => true | _ => false end.

(* tree_flatten_one_level (ops.py; is_leaf is not passed by prefix_errors): children, metadata and
   entries of a non-leaf object, through the Python view of the registry *)
Definition one_level (c : cfg) (o : obj) : res (list obj * ndata * list key) :=
  match o with
  | Leaf _ => Err ValueError
  | Node h cs =>
    let '(k, cu) := get_kind c o in
    match k with
    | KdLeaf => Err ValueError
    | KdNone => Ok ([], DNone, [])
    | KdDict | KdODict | KdDDict =>
      match hdr_keys h with
      | None => Err InternalError
      | Some ks =>
        let vks := visit_keys c k ks in
        do ch <- mapM (child_by_key ks cs) vks ;;
        Ok (ch, ndat (node_of k cu h vks (length ch)), vks)
      end
    | KdCustom =>
      match h with
      | HCustom _ _ eb =>
        match eb with
        | ERaise e => Err (UserExn e)
        | EMalTuple _ => Err RuntimeError
        | EGiven es =>
          if Nat.eqb (length es) (length cs)
          then Ok (cs, ndat (node_of k cu h [] (length cs)), es)
          else Err RuntimeError
        | _ => Ok (cs, ndat (node_of k cu h [] (length cs)), pos_keys (length cs) 0)
        end
      | _ => Err InternalError
      end
    | _ => Ok (cs, ndat (node_of k cu h [] (length cs)), pos_keys (length cs) 0)
    end
  end.

Definition perrs := list (path * pek).

(* for e, t1, t2 in zip(entries, prefix_children, full_children): yield from helper(accessor + e, t1, t2) *)
Fixpoint perr_list (f : path -> obj -> obj -> res perrs) (stk : path)
         (es : list key) (cp cf : list obj) : res perrs :=
  match es, cp, cf with
  | e :: es', x :: cp', y :: cf' =>
    do r1 <- f (e :: stk) x y ;;
    do r2 <- perr_list f stk es' cp' cf' ;;
    Ok (r1 ++ r2)
  | _, _, _ => Ok []
  end.

Definition data_keys (d : ndata) : list key :=
  match d with DKeys ks | DDefault _ ks => ks | _ => [] end.

(* the path stack is kept reversed (top first) *)
Fixpoint perr (c : cfg) (fuel : nat) (stk : path) (p f : obj) : res perrs :=
  match fuel with
  | O => Err RecursionError
  | S fuel' =>
    if tree_is_leaf c p then Ok []
    else
      let both_dict := is_dict_obj p && is_dict_obj f in
      let both_deque := is_deque_obj p && is_deque_obj f in
      if negb (same_type p f) && negb both_dict then Ok [(rev stk, PEType)]
      else
        do lp <- one_level c p ;;
        do lf <- one_level c f ;;
        let '(cp, mp, ep) := lp in
        let '(cf, mf, ef) := lf in
        let continue (cf' : list obj) : res perrs :=
          if negb (Nat.eqb (length cp) (length cf')) then Ok [(rev stk, PEArity)]
          else if negb both_deque && negb both_dict && negb (ndata_eqb mp mf) then Ok [(rev stk, PEMeta)]
          else perr_list (perr c fuel') stk ep cp cf' in
        if both_dict then
          let kp := data_keys mp in
          let kf := data_keys mf in
          if negb (keys_subset kp kf && keys_subset kf kp) then Ok [(rev stk, PEKeys)]
          else
            match f with
            | Node hf csf =>
              match hdr_keys hf with
              | Some oks => do cf' <- mapM (child_by_key oks csf) kp ;; continue cf'
              | None => Err InternalError
              end
            | Leaf _ => Err InternalError
            end
        else continue cf
  end.

Definition prefix_errors (c : cfg) (p f : obj) : res perrs := perr c (S (c_limit c)) [] p f.
