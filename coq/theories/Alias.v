(* Alias.v — what a treespec owns (property C14).
   (1) Aliasing: Python lists are mutable heap objects. The engine copies the key list of a dict at
       flatten time (src/treespec/flatten.cpp: DictKeys + keys.copy()) and hands out copies from
       entries() (src/treespec/treespec.cpp Entries). The model is a heap of list objects, a dict
       treespec node holding two object ids, and user programs that mutate every list they can reach.
   (2) Garbage collection: tp_traverse (src/treespec/gc.cpp) must report every Python reference a node
       owns — node_data, node_entries, original_keys — or cycles through the unreported one are never
       reclaimed. *)
From OptreeModel Require Export Tree Flatten.

(* ================= heap of list objects ================= *)
Definition oid := nat.
Record heap := { cells : list (oid * list key); next : oid }.

Fixpoint hget_cells (c : list (oid * list key)) (i : oid) : option (list key) :=
  match c with
  | [] => None
  | (j, v) :: c' => if Nat.eqb i j then Some v else hget_cells c' i
  end.
Definition hget (h : heap) (i : oid) : option (list key) := hget_cells (cells h) i.

(* in-place mutation of an existing object; a no-op on an id that does not exist *)
Fixpoint hset_cells (c : list (oid * list key)) (i : oid) (v : list key) : list (oid * list key) :=
  match c with
  | [] => []
  | (j, w) :: c' => if Nat.eqb i j then (j, v) :: c' else (j, w) :: hset_cells c' i v
  end.
Definition hset (h : heap) (i : oid) (v : list key) : heap :=
  {| cells := hset_cells (cells h) i v; next := next h |}.

Definition halloc (h : heap) (v : list key) : heap * oid :=
  ({| cells := (next h, v) :: cells h; next := S (next h) |}, next h).

(* a dict node of a treespec: the ids of its (sorted) key list and of its insertion-order copy *)
Record dspec := { d_keys : oid; d_orig : oid }.

(* copying = true is the engine; copying = false keeps the list it was given / hands out its own *)
Definition flatten_dict (copying : bool) (h : heap) (src : oid) : option (heap * dspec) :=
  match hget h src with
  | None => None
  | Some ks =>
    let '(h1, k) := halloc h (total_order_sort ks) in
    if copying then
      let '(h2, o) := halloc h1 ks in Some (h2, {| d_keys := k; d_orig := o |})
    else Some (h1, {| d_keys := k; d_orig := src |})
  end.

Definition entries (copying : bool) (h : heap) (s : dspec) : heap * oid :=
  if copying then
    match hget h (d_keys s) with
    | Some ks => halloc h ks
    | None => halloc h []
    end
  else (h, d_keys s).

(* what the treespec says about itself *)
Definition observe (h : heap) (s : dspec) : option (list key) * option (list key) :=
  (hget h (d_keys s), hget h (d_orig s)).

(* user programs: mutate the n-th list the user holds (source list first), or call entries() and
   keep the result *)
Inductive aop :=
| AMutate (n : nat) (v : list key)
| AEntries.

Record ustate := { u_heap : heap; u_held : list oid }.

Definition astep (copying : bool) (s : dspec) (u : ustate) (o : aop) : ustate :=
  match o with
  | AMutate n v =>
    match nth_error (u_held u) n with
    | Some i => {| u_heap := hset (u_heap u) i v; u_held := u_held u |}
    | None => u
    end
  | AEntries =>
    let '(h', i) := entries copying (u_heap u) s in
    {| u_heap := h'; u_held := i :: u_held u |}
  end.

Definition arun (copying : bool) (s : dspec) (u : ustate) (p : list aop) : ustate :=
  fold_left (astep copying s) p u.

(* ================= garbage-collector traversal ================= *)
Inductive slot := SData | SEntries | SOrig.

(* the three fields of a node as nullable references *)
Definition has_data (n : node) : bool := match ndat n with DNone => false | _ => true end.
Definition has_entries (n : node) : bool := match nentries n with Some _ => true | None => false end.
Definition has_orig (n : node) : bool := match norig n with Some _ => true | None => false end.

Definition owned (n : node) : list slot :=
  (if has_data n then [SData] else []) ++ (if has_entries n then [SEntries] else []) ++
  (if has_orig n then [SOrig] else []).

Inductive gcvariant :=
| GcAll               (* gc.cpp: Py_VISIT on all three fields of every node *)
| GcSkipChildless     (* skips nodes of arity 0 *)
| GcByKind.           (* entries only for custom nodes, original keys only for dict nodes *)

(* which fields are handed to Py_VISIT (a no-op on a null field) *)
Definition passed (v : gcvariant) (n : node) : list slot :=
  match v with
  | GcAll => [SData; SEntries; SOrig]
  | GcSkipChildless => if Nat.eqb (narity n) 0 then [] else [SData; SEntries; SOrig]
  | GcByKind =>
    SData :: match nkind n with KdCustom => [SEntries] | KdDict => [SOrig] | _ => [] end
  end.

Definition non_null (n : node) (s : slot) : bool :=
  match s with SData => has_data n | SEntries => has_entries n | SOrig => has_orig n end.

Definition visited (v : gcvariant) (n : node) : list slot := filter (non_null n) (passed v n).

Definition spec_owned (sp : spec) : list (list slot) := map owned (trav sp).
Definition spec_visited (v : gcvariant) (sp : spec) : list (list slot) := map (visited v) (trav sp).

(* ================= garbage-collector traversal of the leaf iterator ================= *)
(* PyTreeIter owns its root, the objects pending on its agenda and — when one was given — the is_leaf
   predicate (include/optree/treespec.h PyTreeIter members); PyTreeIter::PyTpTraverse must hand every one
   of them to the collector, whatever the state of the iteration. *)
Inductive iref := IRoot | IPending (o : obj) | IPredicate.

Record iter_state := { it_root : obj; it_agenda : list (obj * nat); it_has_pred : bool }.

Definition iter_owned (s : iter_state) : list iref :=
  map (fun p => IPending (fst p)) (it_agenda s) ++ [IRoot] ++ (if it_has_pred s then [IPredicate] else []).

Inductive itergc :=
| IGcAll              (* agenda, root, predicate (gc.cpp after fix F18) *)
| IGcNoPredicate      (* agenda and root only (gc.cpp before the fix) *)
| IGcSkipExhausted.   (* nothing once the agenda is empty (a seeded change) *)

Definition iter_visited (v : itergc) (s : iter_state) : list iref :=
  match v with
  | IGcAll => iter_owned s
  | IGcNoPredicate => map (fun p => IPending (fst p)) (it_agenda s) ++ [IRoot]
  | IGcSkipExhausted => match it_agenda s with [] => [] | _ => iter_owned s end
  end.
