(* JoinArr.v — PyTreeSpec::BroadcastToCommonSuffix as the C++ runs it (src/treespec/treespec.cpp:184-455):
   a recursive walk over both node arrays by position from their ends, emitting the result's nodes
   root-first / last-child-first into a vector that is reversed at the very end, patching the counters
   of each emitted internal node in place, and — for dict nodes — visiting the other node's children
   through a table of their positions looked up by key.

   Positions are modelled by suffixes of the REVERSED arrays: position pos of an array is the reversed
   array with the last len-1-pos elements dropped, so its head is the node at pos and `pos - 1`,
   `pos - k` are tl and skipn k. *)
From OptreeModel Require Export Tree Spec PrefixArr.

(* positions (as offsets into the reversed array after the root) of the [k] children, last child first,
   found by hopping over num_nodes; and the offset after the first child.  `.at()` throws. *)
Fixpoint child_offsets (k : nat) (rb : list node) (off : nat) : res (list nat * nat) :=
  match k with
  | O => Ok ([], off)
  | S k' =>
    match nth_error rb off with
    | None => Err InternalError
    | Some n =>
      do r <- child_offsets k' rb (off + nnodes n)%nat ;;
      let '(l, tot) := r in Ok (off :: l, tot)
    end
  end.

Record bres := { b_nodes : list node; b_walked : nat; b_owalked : nat; b_nn : nat; b_nl : nat }.

Definition patch (n : node) (nn nl : nat) : node :=
  {| nkind := nkind n; narity := narity n; ndat := ndat n; nentries := nentries n; ncustom := ncustom n;
     nleaves := nl; nnodes := nn; norig := norig n |}.

(* the loop over the children of one pair of nodes, from the last child to the first; [rec] is the
   recursive call, [ra'] / [rb'] the reversed arrays after the two roots; [offs]: where the other node's
   child for each step starts (None: right after the previous one); ca / cb: nodes walked so far *)
Fixpoint bloop (rec : list node -> list node -> res bres) (ra' rb' : list node)
         (k : nat) (offs : option (list nat)) (ca cb : nat) (emitted : list node) (nn nl : nat)
  : res (list node * nat * nat * nat * nat) :=
  match k with
  | O => Ok (emitted, ca, cb, nn, nl)
  | S k' =>
    let '(ob, offs') := match offs with
                        | None => (Some cb, None)
                        | Some (o :: l) => (Some o, Some l)
                        | Some [] => (None, Some [])
                        end in
    match ob with
    | None => Err InternalError
    | Some ob =>
      do r <- rec (skipn ca ra') (skipn ob rb') ;;
      bloop rec ra' rb' k' offs' (ca + b_walked r)%nat (cb + b_owalked r)%nat (emitted ++ b_nodes r)
            (nn + b_nn r)%nat (nl + b_nl r)%nat
    end
  end.

(* emit the node, run the loop, patch the node's counters in place *)
Definition bfinish (rec : list node -> list node -> res bres) (root : node) (ra' rb' : list node)
           (offs : option (list nat)) (ototal : option nat) : res bres :=
  do r <- bloop rec ra' rb' (narity root) offs 0%nat 0%nat [] 1%nat 0%nat ;;
  let '(emitted, ca, cb, nn, nl) := r in
  Ok {| b_nodes := patch root nn nl :: emitted; b_walked := S ca;
        b_owalked := S (match ototal with Some t => t | None => cb end); b_nn := nn; b_nl := nl |}.

Fixpoint bc (fuel : nat) (ra rb : list node) : res bres :=
  match fuel with
  | O => Err RecursionError
  | S fuel' =>
    match ra, rb with
    | root :: ra', oroot :: rb' =>
      if Nat.ltb (length ra) (nnodes root) then Err InternalError          (* EXPECT_GE(pos + 1, num_nodes) *)
      else if Nat.ltb (length rb) (nnodes oroot) then Err InternalError
      else if is_leaf_node root then
        Ok {| b_nodes := firstn (nnodes oroot) rb; b_walked := 1%nat; b_owalked := nnodes oroot;
              b_nn := nnodes oroot; b_nl := nleaves oroot |}
      else if is_leaf_node oroot then
        Ok {| b_nodes := firstn (nnodes root) ra; b_walked := nnodes root; b_owalked := 1%nat;
              b_nn := nnodes root; b_nl := nleaves root |}
      else
        let finish := bfinish (bc fuel') root ra' rb' in
        match nkind root with
        | KdNone =>
          if kind_eqb (nkind oroot) KdNone
          then Ok {| b_nodes := [root]; b_walked := 1%nat; b_owalked := 1%nat; b_nn := nnodes root; b_nl := nleaves root |}
          else Err ValueError
        | KdTuple | KdList | KdDeque =>
          if negb (kind_eqb (nkind root) (nkind oroot)) then Err ValueError
          else if negb (Nat.eqb (narity root) (narity oroot)) then Err ValueError
          else finish None None
        | KdDict | KdODict | KdDDict =>
          if negb (is_dict_kind (nkind oroot)) then Err ValueError
          else
            match node_keys root, node_keys oroot with
            | Some ka, Some kb =>
              if negb (keys_same_set ka kb) then Err ValueError
              else
                do r <- child_offsets (narity oroot) rb' 0%nat ;;
                let '(offs_last_first, total) := r in
                (* other_curs[j] for the child under the j-th of the other node's keys *)
                let by_key := combine kb (rev offs_last_first) in
                match omapM (fun k => lookup k by_key) ka with
                | None => Err InternalError
                | Some in_expected_order => finish (Some (rev in_expected_order)) (Some total)
                end
            | _, _ => Err InternalError
            end
        | KdNamed | KdStruct =>
          if negb (kind_eqb (nkind root) (nkind oroot)) then Err ValueError
          else if negb (Nat.eqb (narity root) (narity oroot)) then Err ValueError
          else if negb (ndata_eqb (ndat root) (ndat oroot)) then Err ValueError
          else finish None None
        | KdCustom =>
          if negb (kind_eqb (nkind root) (nkind oroot)) then Err ValueError
          else if negb (opt_reg_eqb (ncustom root) (ncustom oroot)) then Err ValueError
          else if negb (Nat.eqb (narity root) (narity oroot)) then Err ValueError
          else if negb (ndata_eqb (ndat root) (ndat oroot)) then Err ValueError
          else finish None None
        | KdLeaf => Err InternalError
        end
    | _, _ => Err InternalError
    end
  end.

(* BroadcastToCommonSuffix: option checks, the walk from both ends, std::reverse, the four EXPECTs *)
Definition arr_broadcast (a b : spec) : res spec :=
  if negb (Bool.eqb (snil a) (snil b)) then Err ValueError
  else if negb (Z.eqb (sns a) 0) && negb (Z.eqb (sns b) 0) && negb (Z.eqb (sns a) (sns b)) then Err ValueError
  else
    do r <- bc (S (length (trav a))) (rev (trav a)) (rev (trav b)) ;;
    if negb (Nat.eqb (b_walked r) (length (trav a))) then Err InternalError
    else if negb (Nat.eqb (b_owalked r) (length (trav b))) then Err InternalError
    else if negb (Nat.eqb (b_nn r) (length (b_nodes r))) then Err InternalError
    else match b_nodes r with
         | [] => Err InternalError
         | root :: _ =>
           if negb (Nat.eqb (b_nl r) (nleaves root)) then Err InternalError
           else Ok {| trav := rev (b_nodes r); snil := snil a; sns := if Z.eqb (sns b) 0 then sns a else sns b |}
         end.
