(* Repr.v — PyTreeSpec::ToStringImpl (src/treespec/serialization.cpp:61-256): the agenda machine over the
   post-order node array that builds the repr of a treespec, as a list of tokens. A token is either a
   fixed piece of text of the documented notation or the text Python gives for an object the treespec
   holds (repr of a key / default factory / maxlen / metadata / namespace, name of a class, name of a
   field); the harness renders the tokens with the real objects and compares the string with repr(). *)
From OptreeModel Require Export Tree Spec.

Inductive lit :=
| LStar | LNone | LLp | LRp | LComma | LSep | LLb | LRb | LLc | LRc | LColon | LOD | LDD | LDDmid | LDDend
| LDeque | LMaxlen | LCust | LCustMid | LCustEnd | LEq | LHead | LNil | LNsPre.

Inductive rtok :=
| RL (l : lit)
| RKey (k : key)                                 (* repr(key) *)
| RNtName (cls : Z) (arity : nat)                (* namedtuple class __name__ *)
| RNtField (cls : Z) (arity i : nat)             (* its i-th field *)
| RSsName (cls : Z)                              (* struct sequence: module-qualified name *)
| RSsField (cls : Z) (i : nat)
| RCustName (r : option reg)                     (* registered class __name__ *)
| RMeta (meta : Z) (eb : ebeh)                   (* repr(node_data) of a custom node *)
| RFactory (f : Z) | RMaxlen (m : Z) | RNs (ns : Z).

Fixpoint join_sep (l : list (list rtok)) : list rtok :=
  match l with
  | [] => []
  | [x] => x
  | x :: l' => x ++ RL LSep :: join_sep l'
  end.

(* "key: child" / "field=child" items *)
Fixpoint items (heads : list (list rtok)) (cs : list (list rtok)) : list (list rtok) :=
  match heads, cs with
  | h :: hs, c :: cs' => (h ++ c) :: items hs cs'
  | _, _ => []
  end.

Definition key_heads (ks : list key) : list (list rtok) := map (fun k => [RKey k; RL LColon]) ks.
Definition field_heads (f : nat -> rtok) (n : nat) : list (list rtok) := map (fun i => [f i; RL LEq]) (seq 0 n).

(* one iteration of the loop: the text of a node from the texts of its children *)
Definition repr_node (n : node) (cs : list (list rtok)) : res (list rtok) :=
  let children := join_sep cs in
  match nkind n with
  | KdLeaf => Ok [RL LStar]
  | KdNone => Ok [RL LNone]
  | KdTuple => Ok (RL LLp :: children ++ (if Nat.eqb (narity n) 1 then [RL LComma] else []) ++ [RL LRp])
  | KdList => Ok (RL LLb :: children ++ [RL LRb])
  | KdDict | KdODict =>
    match ndat n with
    | DKeys ks =>
      if negb (Nat.eqb (length ks) (narity n)) then Err InternalError      (* EXPECT_EQ(keys, arity) *)
      else
        let od := kind_eqb (nkind n) KdODict in
        let braces := negb od || negb (Nat.eqb (narity n) 0) in
        Ok ((if od then [RL LOD] else []) ++ (if braces then [RL LLc] else [])
            ++ join_sep (items (key_heads ks) cs)
            ++ (if braces then [RL LRc] else []) ++ (if od then [RL LRp] else []))
    | _ => Err InternalError
    end
  | KdNamed =>
    match ndat n with
    | DClass cls =>
      Ok (RNtName cls (narity n) :: RL LLp
          :: join_sep (items (field_heads (RNtField cls (narity n)) (narity n)) cs) ++ [RL LRp])
    | _ => Err InternalError
    end
  | KdDDict =>
    match ndat n with
    | DDefault f ks =>
      if negb (Nat.eqb (length ks) (narity n)) then Err InternalError
      else Ok (RL LDD :: RFactory f :: RL LDDmid :: join_sep (items (key_heads ks) cs) ++ [RL LDDend])
    | _ => Err InternalError
    end
  | KdDeque =>
    match ndat n with
    | DMaxlen m =>
      Ok (RL LDeque :: children ++ RL LRb
          :: match m with Some x => [RL LMaxlen; RMaxlen x] | None => [] end ++ [RL LRp])
    | _ => Err InternalError
    end
  | KdStruct =>
    match ndat n with
    | DClass cls =>
      Ok (RSsName cls :: RL LLp :: join_sep (items (field_heads (RSsField cls) (narity n)) cs) ++ [RL LRp])
    | _ => Err InternalError
    end
  | KdCustom =>
    Ok (RL LCust :: RCustName (ncustom n) :: RL LLb
        :: match ndat n with DMeta m eb => [RMeta m eb] | _ => [] end
        ++ RL LCustMid :: children ++ [RL LCustEnd])
  end.

(* the loop with its agenda (top of the stack first) *)
Fixpoint repr_go (ns : list node) (agenda : list (list rtok)) : res (list (list rtok)) :=
  match ns with
  | [] => Ok agenda
  | n :: ns' =>
    if Nat.ltb (length agenda) (narity n) then Err InternalError            (* EXPECT_GE(agenda.size(), arity) *)
    else
      do s <- repr_node n (rev (firstn (narity n) agenda)) ;;
      repr_go ns' (s :: skipn (narity n) agenda)
  end.

Definition wrap (nil : bool) (ns : Z) (body : list rtok) : list rtok :=
  RL LHead :: body ++ (if nil then [RL LNil] else [])
  ++ (if Z.eqb ns 0 then [] else [RL LNsPre; RNs ns]) ++ [RL LRp].

Definition arr_repr (s : spec) : res (list rtok) :=
  do a <- repr_go (trav s) [] ;;
  match a with
  | [body] => Ok (wrap (snil s) (sns s) body)
  | _ => Err InternalError                                                  (* EXPECT_EQ(agenda.size(), 1) *)
  end.

(* ---------- the same at tree level ---------- *)
Fixpoint st_repr (t : stree) : res (list rtok) :=
  match t with
  | T n cs =>
    do rs <- (fix go (l : list stree) : res (list (list rtok)) :=
                match l with
                | [] => Ok []
                | c :: l' => do r <- st_repr c ;; do rs <- go l' ;; Ok (r :: rs)
                end) cs ;;
    repr_node n rs
  end.

Definition ss_repr (s : sspec) : res (list rtok) :=
  do body <- st_repr (stree_of s) ;; Ok (wrap (ss_nil s) (ss_ns s) body).

Definition count_stars (l : list rtok) : nat :=
  length (filter (fun t => match t with RL LStar => true | _ => false end) l).
