(* PrefixArr.v — PyTreeSpec::IsPrefix as the C++ runs it (src/treespec/richcomparison.cpp:27-167): one
   loop over the two post-order node arrays through REVERSE iterators, skipping a whole subtree of the
   other treespec by its stored num_nodes where this treespec has a leaf, and — where two dict nodes
   list the same keys in different orders — permuting the blocks of the other node's children inside
   a working copy of the other array.

   The reverse iterators are modelled literally: both arrays are handed over reversed (the head of the
   list is what the iterator points at), and everything the iterator has passed is dropped (the C++
   never reads it again: it only ever moves towards rend() and writes between itself and rend()). *)
From OptreeModel Require Export Tree Spec.

(* static_cast<bool>(node_data): does the node carry a node_data object *)
Definition has_data (n : node) : bool := match ndat n with DNone => false | _ => true end.

(* the blocks of the [k] children of the node whose reversed subtree starts the list: walking from the
   iterator towards rend() one meets the LAST child first; each block is as long as the num_nodes of
   its first element.  Returns the blocks (last child first) and what follows them. *)
Fixpoint rblocks (k : nat) (rb : list node) : res (list (list node) * list node) :=
  match k with
  | O => Ok ([], rb)
  | S k' =>
    match rb with
    | [] => Err InternalError
    | n :: _ =>
      if Nat.ltb (length rb) (nnodes n) then Err InternalError
      else
        do r <- rblocks k' (skipn (nnodes n) rb) ;;
        let '(bs, rest) := r in
        Ok (firstn (nnodes n) rb :: bs, rest)
    end
  end.

(* the working copy after the children blocks of a dict node have been permuted into the order of the
   expected keys: [rb'] is the reversed array after the node itself *)
Definition reorder (ka kb : list key) (arity : nat) (rb' : list node) : res (list node) :=
  do r <- rblocks arity rb' ;;
  let '(bs, rest) := r in
  (* bs lists the children last-first; children in array order: *)
  let by_key := combine kb (rev bs) in
  match omapM (fun k => lookup k by_key) ka with
  | None => Err InternalError
  | Some bs' => Ok (concat (rev bs') ++ rest)
  end.

(* the node-level tests of one loop iteration, in the order the C++ makes them (each failing test is
   a `return false`): arity, presence of node_data, registration; then by kind *)
Definition cpp_node_ok (a b : node) : bool :=
  Nat.eqb (narity a) (narity b) && Bool.eqb (has_data a) (has_data b) && opt_reg_eqb (ncustom a) (ncustom b) &&
  match nkind a with
  | KdNone | KdTuple | KdList | KdDeque => kind_eqb (nkind a) (nkind b)
  | KdDict | KdODict | KdDDict =>
    is_dict_kind (nkind b) &&
    match node_keys a, node_keys b with
    | Some ka, Some kb => keys_same_set ka kb                                  (* DictKeysEqual *)
    | _, _ => false
    end
  | KdNamed | KdStruct | KdCustom =>
    kind_eqb (nkind a) (nkind b) && (negb (has_data a) || ndata_eqb (ndat a) (ndat b))
  | KdLeaf => false
  end.

(* result: Some all_leaves_match when the first treespec is a prefix of the second, None when not *)
Fixpoint isp (ra rb : list node) (m : bool) : res (option bool) :=
  match ra with
  | [] => match rb with [] => Ok (Some m) | _ => Err InternalError end      (* EXPECT_EQ(b, crend()) *)
  | a :: ra' =>
    match rb with
    | [] => Ok None                                                          (* b == rend() *)
    | b :: rb' =>
      if is_leaf_node a then
        (* all_leaves_match &= b is a leaf; b += b->num_nodes - 1; EXPECT_LT(b, rend()); ++b *)
        if Nat.eqb (nnodes b) 0 then Err InternalError
        else if Nat.ltb (length rb) (nnodes b) then Err InternalError
        else isp ra' (skipn (nnodes b) rb) (m && is_leaf_node b)
      else if negb (cpp_node_ok a b) then Ok None
      else
        (* dict nodes with the same keys in another order: permute the other node's children *)
        do rb'' <- match node_keys a, node_keys b with
                   | Some ka, Some kb =>
                     if is_dict_kind (nkind a) && negb (keys_eqb ka kb) then reorder ka kb (narity b) rb'
                     else Ok rb'
                   | _, _ => Ok rb'
                   end ;;
        if Nat.ltb (nnodes b) (nnodes a) then Ok None else isp ra' rb'' m
    end
  end.

Definition arr_is_prefix (a b : spec) (strict : bool) : res bool :=
  if negb (Bool.eqb (snil a) (snil b)) then Ok false
  else if negb (Z.eqb (sns a) 0) && negb (Z.eqb (sns b) 0) && negb (Z.eqb (sns a) (sns b)) then Ok false
  else if Nat.ltb (length (trav b)) (length (trav a)) then Ok false
  else
    do r <- isp (rev (trav a)) (rev (trav b)) true ;;
    match r with
    | None => Ok false
    | Some m => Ok (negb strict || negb m)
    end.
