(* Wire.v — the S-expression wire format shared by the OCaml driver and the Python harness.
   Everything is an integer or a list; the encoders/decoders are written here (type-checked and
   extracted) so that the hand-written OCaml driver only parses and prints generic S-expressions. *)
From OptreeModel Require Export Tree.

Inductive sexp := SI (z : Z) | SL (l : list sexp).

Definition dec_Z (s : sexp) : option Z := match s with SI z => Some z | _ => None end.
Definition dec_nat (s : sexp) : option nat := omap Z.to_nat (dec_Z s).
Definition dec_bool (s : sexp) : option bool := omap (fun z => negb (Z.eqb z 0)) (dec_Z s).
Definition dec_list {A} (f : sexp -> option A) (s : sexp) : option (list A) :=
  match s with SL l => omapM f l | _ => None end.

Definition dec_key (s : sexp) : option key :=
  match s with
  | SL [SI 0; SI z] => Some (KInt z)
  | SL [SI 1; SI z] => Some (KFloat z)
  | SL (SI 2 :: l) => omap KStr (omapM dec_Z l)
  | SL [SI 3] => Some KNone
  | SL (SI 4 :: l) => omap KTup (omapM dec_Z l)
  | SL [SI 5; SI z] => Some (KCplx z)
  | SL [SI 6; SI c; SI z] => Some (KOrd c z)
  | SL [SI 7; SI c; SI z] => Some (KUn c z)
  | _ => None
  end.

Definition enc_key (k : key) : sexp :=
  match k with
  | KInt z => SL [SI 0; SI z]
  | KFloat z => SL [SI 1; SI z]
  | KStr l => SL (SI 2 :: map SI l)
  | KNone => SL [SI 3]
  | KTup l => SL (SI 4 :: map SI l)
  | KCplx z => SL [SI 5; SI z]
  | KOrd c z => SL [SI 6; SI c; SI z]
  | KUn c z => SL [SI 7; SI c; SI z]
  end.
Definition enc_keys (ks : list key) : sexp := SL (map enc_key ks).
Definition enc_okeys (o : option (list key)) : sexp :=
  match o with None => SL [] | Some ks => SL (SI 1 :: map enc_key ks) end.

Definition dec_ebeh (s : sexp) : option ebeh :=
  match s with
  | SL [SI 0] => Some EAbsent
  | SL [SI 1] => Some ENone
  | SL (SI 2 :: l) => omap EGiven (omapM dec_key l)
  | SL [SI 3; SI n] => Some (EMalTuple n)
  | SL [SI 4; SI e] => Some (ERaise e)
  | _ => None
  end.
Definition enc_ebeh (e : ebeh) : sexp :=
  match e with
  | EAbsent => SL [SI 0]
  | ENone => SL [SI 1]
  | EGiven es => SL (SI 2 :: map enc_key es)
  | EMalTuple n => SL [SI 3; SI n]
  | ERaise e => SL [SI 4; SI e]
  end.

Definition dec_hdr (s : sexp) : option hdr :=
  match s with
  | SL [SI 0] => Some HNone
  | SL [SI 1] => Some HTuple
  | SL [SI 2] => Some HList
  | SL (SI 3 :: l) => omap HDict (omapM dec_key l)
  | SL (SI 4 :: l) => omap HODict (omapM dec_key l)
  | SL (SI 5 :: SI f :: l) => omap (HDDict f) (omapM dec_key l)
  | SL [SI 6] => Some (HDeque None)
  | SL [SI 6; SI m] => Some (HDeque (Some m))
  | SL [SI 7; SI c] => Some (HNamed c)
  | SL [SI 8; SI c] => Some (HStruct c)
  | SL [SI 9; SI c; SI m; e] => omap (HCustom c m) (dec_ebeh e)
  | _ => None
  end.
Definition enc_hdr (h : hdr) : sexp :=
  match h with
  | HNone => SL [SI 0]
  | HTuple => SL [SI 1]
  | HList => SL [SI 2]
  | HDict ks => SL (SI 3 :: map enc_key ks)
  | HODict ks => SL (SI 4 :: map enc_key ks)
  | HDDict f ks => SL (SI 5 :: SI f :: map enc_key ks)
  | HDeque None => SL [SI 6]
  | HDeque (Some m) => SL [SI 6; SI m]
  | HNamed c => SL [SI 7; SI c]
  | HStruct c => SL [SI 8; SI c]
  | HCustom c m e => SL [SI 9; SI c; SI m; enc_ebeh e]
  end.

Fixpoint dec_obj (s : sexp) : option obj :=
  match s with
  | SL [SI 0; SI id] => Some (Leaf id)
  | SL (SI 1 :: h :: cs) =>
    obind (dec_hdr h) (fun h' =>
      omap (Node h')
           ((fix go (l : list sexp) : option (list obj) :=
               match l with
               | [] => Some []
               | x :: l' => obind (dec_obj x) (fun y => omap (cons y) (go l'))
               end) cs))
  | _ => None
  end.

Fixpoint enc_obj (o : obj) : sexp :=
  match o with
  | Leaf id => SL [SI 0; SI id]
  | Node h cs => SL (SI 1 :: enc_hdr h :: map enc_obj cs)
  end.
Definition enc_objs (l : list obj) : sexp := SL (map enc_obj l).

Definition enc_nat (n : nat) : sexp := SI (Z.of_nat n).
Definition enc_bool (b : bool) : sexp := SI (if b then 1 else 0).

Definition enc_ndata (d : ndata) : sexp :=
  match d with
  | DNone => SL [SI 0]
  | DKeys ks => SL (SI 1 :: map enc_key ks)
  | DDefault f ks => SL (SI 2 :: SI f :: map enc_key ks)
  | DClass c => SL [SI 3; SI c]
  | DMaxlen None => SL [SI 4]
  | DMaxlen (Some m) => SL [SI 4; SI m]
  | DMeta m e => SL [SI 5; SI m; enc_ebeh e]
  end.

(* what __getstate__ shows of a node: the registration appears only as its class *)
Definition enc_node (n : node) : sexp :=
  SL [SI (kind_code (nkind n)); enc_nat (narity n); enc_ndata (ndat n); enc_okeys (nentries n);
      match ncustom n with None => SL [] | Some r => SL [SI (rcls r)] end;
      enc_nat (nleaves n); enc_nat (nnodes n); enc_okeys (norig n)].

Definition enc_spec (s : spec) : sexp :=
  SL [SL (map enc_node (trav s)); enc_bool (snil s); SI (sns s)].

Definition enc_err (e : err) : sexp :=
  match e with
  | ValueError => SL [SI 1; SI 1] | TypeError => SL [SI 1; SI 2] | RuntimeError => SL [SI 1; SI 3]
  | RecursionError => SL [SI 1; SI 4] | IndexError => SL [SI 1; SI 5] | KeyError => SL [SI 1; SI 6]
  | InternalError => SL [SI 1; SI 7] | OutOfFuel => SL [SI 1; SI 8] | Crash => SL [SI 1; SI 9]
  | UserExn id => SL [SI 1; SI 10; SI id]
  | WarningError => SL [SI 1; SI 11]
  end.
Definition enc_res {A} (f : A -> sexp) (r : res A) : sexp :=
  match r with Ok a => SL [SI 0; f a] | Err e => enc_err e end.

Definition enc_path (p : list key) : sexp := SL (map enc_key p).

(* ---------- configuration ---------- *)
Definition dec_reg (s : sexp) : option reg :=
  match s with
  | SL [SI c; SI n; SI i; SI p] => Some {| rcls := c; rns := n; rid := i; rpet := p |}
  | _ => None
  end.

(* the finite predicate family used by the harness (the theorems quantify over all predicates) *)
Definition pred_of_code (code : Z) : option (obj -> bool) :=
  if Z.eqb code 0 then None else
  Some (fun o =>
    match code, o with
    | 1, Node HTuple _ => true
    | 2, Node (HDict _) _ | 2, Node (HODict _) _ | 2, Node (HDDict _ _) _ => true
    | 3, Leaf id => Z.eqb (id mod 3) 0
    | 3, Node HList [_; _] => true
    | 4, Node (HNamed _) _ | 4, Node (HCustom _ _ _) _ => true
    | 5, Node HNone _ => true
    | 6, _ => true
    | _, _ => false
    end).

Definition dec_cfg (s : sexp) : option cfg :=
  match s with
  | SL [nl; SI ns; SI p; regs; ins; SI lim] =>
    obind (dec_bool nl) (fun nil' =>
    obind (dec_list dec_reg regs) (fun regs' =>
    obind (dec_list dec_Z ins) (fun ins' =>
      Some {| c_nil := nil'; c_ns := ns; c_pred := pred_of_code p; c_reg := regs';
              c_ins := ins'; c_limit := Z.to_nat lim |})))
  | _ => None
  end.
