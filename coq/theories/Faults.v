(* Faults.v — failing user callbacks. (1) flatten with a fault injected at the k-th callback
   invocation (is_leaf predicate calls and custom flatten calls are counted, in the order the engine
   makes them); (2) the in-progress guard set of hashing / repr (src/treespec/hashing.cpp HashValue,
   serialization.cpp ToString): inserted before the body runs, erased on success AND on failure. *)
From OptreeModel Require Export Tree Flatten.

(* a call counter threaded through the traversal; fault = Some k makes the k-th call (1-based) raise *)
Definition tick (fault : option nat) (n : nat) : res nat :=
  match fault with
  | Some k => if Nat.eqb (S n) k then Err (UserExn 99) else Ok (S n)
  | None => Ok (S n)
  end.

Definition fresn := (list obj * list node * bool * nat)%type.

Fixpoint flatf_seq (f : nat -> obj -> res fresn) (n : nat) (l : list obj) : res fresn :=
  match l with
  | [] => Ok ([], [], false, n)
  | x :: l' =>
    do r1 <- f n x ;;
    let '(ls1, ns1, b1, n1) := r1 in
    do r2 <- flatf_seq f n1 l' ;;
    let '(ls2, ns2, b2, n2) := r2 in
    Ok (ls1 ++ ls2, ns1 ++ ns2, b1 || b2, n2)
  end.

Definition mk_noden (k : kind) (ar : nat) (d : ndata) (ent : option (list key))
           (cu : option reg) (orig : option (list key)) (r : fresn) : fresn :=
  let '(ls, ns, b, n) := r in
  (ls, ns ++ [{| nkind := k; narity := ar; ndat := d; nentries := ent; ncustom := cu;
                 nleaves := length ls; nnodes := S (length ns); norig := orig |}], b, n).

(* the same traversal as Flatten.flat with the callback counter; has_pred says whether a predicate was
   given (only then the predicate is a callback) *)
Fixpoint flatf (c : cfg) (fault : option nat) (fuel : nat) (n : nat) (o : obj) : res fresn :=
  match fuel with
  | O => Err RecursionError
  | S fuel' =>
    do n1 <- (match c_pred c with Some _ => tick fault n | None => Ok n end) ;;
    if apply_pred c o then Ok ([o], [leaf_node], false, n1)
    else
      let '(k, cu) := get_kind c o in
      match o with
      | Leaf _ => Ok ([o], [leaf_node], false, n1)
      | Node h cs =>
        let rec := flatf c fault fuel' in
        match k with
        | KdLeaf => Ok ([o], [leaf_node], false, n1)
        | KdNone => Ok (mk_noden KdNone 0 DNone None None None ([], [], false, n1))
        | KdTuple | KdList =>
          do r <- flatf_seq rec n1 cs ;;
          Ok (mk_noden k (length cs) DNone None None None r)
        | KdDict | KdODict | KdDDict =>
          match hdr_keys h with
          | None => Err InternalError
          | Some ks =>
            let vks := visit_keys c k ks in
            do ch <- mapM (child_by_key ks cs) vks ;;
            do r <- flatf_seq rec n1 ch ;;
            let orig := match k with KdODict => None | _ => Some ks end in
            let d := match h with HDDict f _ => DDefault f vks | _ => DKeys vks end in
            Ok (mk_noden k (length ks) d None None orig r)
          end
        | KdNamed | KdStruct =>
          let cls := match h with HNamed x | HStruct x => x | _ => 0 end in
          do r <- flatf_seq rec n1 cs ;;
          Ok (mk_noden k (length cs) (DClass cls) None None None r)
        | KdDeque =>
          let m := match h with HDeque m => m | _ => None end in
          do r <- flatf_seq rec n1 cs ;;
          Ok (mk_noden k (length cs) (DMaxlen m) None None None r)
        | KdCustom =>
          match h with
          | HCustom cls meta eb =>
            (* the custom flatten function is a callback *)
            do n2 <- tick fault n1 ;;
            match eb with
            | ERaise e => Err (UserExn e)
            | EMalTuple _ => Err RuntimeError
            | _ =>
              do r <- flatf_seq rec n2 cs ;;
              let '(ls, ns, _, n3) := r in
              match eb with
              | EGiven es =>
                if Nat.eqb (length es) (length cs)
                then Ok (mk_noden k (length cs) (DMeta meta eb) (Some es) cu None (ls, ns, true, n3))
                else Err RuntimeError
              | _ => Ok (mk_noden k (length cs) (DMeta meta eb) None cu None (ls, ns, true, n3))
              end
            end
          | _ => Err InternalError
          end
        end
      end
  end.

(* ---------- the in-progress guard of hash / repr ---------- *)
(* guard set: (treespec identity, thread) pairs *)
Definition gset := list (Z * Z).

Fixpoint gmem (x : Z * Z) (g : gset) : bool :=
  match g with [] => false | y :: g' => (Z.eqb (fst x) (fst y) && Z.eqb (snd x) (snd y)) || gmem x g' end.
Fixpoint gerase (x : Z * Z) (g : gset) : gset :=
  match g with
  | [] => []
  | y :: g' => if Z.eqb (fst x) (fst y) && Z.eqb (snd x) (snd y) then g' else y :: gerase x g'
  end.

(* HashValue: if already running for (spec, thread) return 0; insert; run the body; erase in both the
   normal and the exceptional path.  erase_on_error = false is the seeded / defective variant. *)
Definition guarded {A} (erase_on_error : bool) (dflt : A) (ident : Z * Z) (body : gset -> res A) (g : gset)
  : res A * gset :=
  if gmem ident g then (Ok dflt, g)
  else
    let g1 := ident :: g in
    match body g1 with
    | Ok a => (Ok a, gerase ident g1)
    | Err e => (Err e, if erase_on_error then gerase ident g1 else g1)
    end.

(* ---------- exceptions raised by key comparison while sorting (pytypes.h TotalOrderSort) ---------- *)
Inductive cmp_exn := CNoExn | CTypeError | COther (e : Z).
Inductive sort_out := SSorted1 | SSorted2 | SInsertion | SRaise (e : Z).

(* stage 1 = list.sort(); stage 2 = sort by (qualified class name, key) *)
Definition sort_decide (s1 s2 : cmp_exn) : sort_out :=
  match s1 with
  | CNoExn => SSorted1
  | COther e => SRaise e
  | CTypeError =>
    match s2 with
    | CNoExn => SSorted2
    | CTypeError => SInsertion
    | COther e => SRaise e
    end
  end.
