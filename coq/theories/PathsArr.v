(* PathsArr.v — PyTreeSpec::Paths as the C++ runs it (src/treespec/treespec.cpp:632-720): a recursive
   walk over the node array by position from its end with an explicit stack of path entries, emitting
   the paths of the leaves last-leaf-first into a vector that is reversed at the end.
   Positions are suffixes of the reversed array, as in PrefixArr.v. *)
From OptreeModel Require Export Tree Flatten Spec PrefixArr.

(* [stk]: the entry stack, bottom first *)
Fixpoint parr_loop (rec : list node -> list key -> res (list path * nat)) (ra' : list node) (stk : list key)
         (entries_last_first : list key) (k : nat) (cur : nat) (emitted : list path) : res (list path * nat) :=
  match k with
  | O => Ok (emitted, cur)
  | S k' =>
    match entries_last_first with
    | [] => Err InternalError                      (* TupleGetItem / ListGetItem out of range *)
    | e :: es =>
      do r <- rec (skipn cur ra') (stk ++ [e]) ;;
      let '(ps, walked) := r in
      parr_loop rec ra' stk es k' (cur + walked)%nat (emitted ++ ps)
    end
  end.

Fixpoint parr (fuel : nat) (ra : list node) (stk : list key) : res (list path * nat) :=
  match fuel with
  | O => Err RecursionError
  | S fuel' =>
    match ra with
    | [] => Err InternalError                                           (* m_traversal.at(pos) *)
    | root :: ra' =>
      if Nat.ltb (length ra) (nnodes root) then Err InternalError      (* EXPECT_GE(pos + 1, num_nodes) *)
      else
        (* for (i = arity - 1; i >= 0; --i) cur -= recurse(cur, entries[i]) *)
        let loop (es : list key) : res (list path * nat) :=
          do r <- parr_loop (parr fuel') ra' stk (rev (firstn (narity root) es)) (narity root) 0%nat [] ;;
          let '(ps, cur) := r in Ok (ps, S cur) in
        match nentries root with
        | Some es => loop es
        | None =>
          match nkind root with
          | KdLeaf => Ok ([stk], 1%nat)
          | KdNone => Ok ([], 1%nat)
          | KdTuple | KdList | KdNamed | KdDeque | KdStruct | KdCustom => loop (pos_keys (narity root) 0)
          | KdDict | KdODict | KdDDict =>
            match node_keys root with
            | Some ks => loop ks
            | None => Err InternalError
            end
          end
        end
    end
  end.

Definition arr_paths (s : spec) : res (list path) :=
  match rev (trav s) with
  | [] => Err InternalError
  | root :: _ =>
    if Nat.eqb (nleaves root) 0 then Ok []
    else if Nat.eqb (length (trav s)) 1 && Nat.eqb (nleaves root) 1 then Ok [[]]
    else
      do r <- parr (S (length (trav s))) (rev (trav s)) [] ;;
      let '(ps, walked) := r in
      if negb (Nat.eqb walked (length (trav s))) then Err InternalError
      else if negb (Nat.eqb (length ps) (nleaves root)) then Err InternalError
      else Ok (rev ps)
  end.
