(* Base.v — results, keys, Python's partial "<" on keys, and the total-order sort
   (include/optree/pytypes.h:478 TotalOrderSort, optree/utils.py total_order_sorted).
   Definitions only; proofs are in proofs/. *)
From Coq Require Export List ZArith Bool Lia.
Export ListNotations.
Open Scope Z_scope.

(* ---------- results ---------- *)
Inductive err :=
| ValueError | TypeError | RuntimeError | RecursionError | IndexError | KeyError
| UserExn (id : Z) | InternalError | OutOfFuel | Crash | WarningError.

Inductive res (A : Type) := Ok (a : A) | Err (e : err).
Arguments Ok {A} a.
Arguments Err {A} e.

Definition bind {A B} (r : res A) (f : A -> res B) : res B :=
  match r with Ok a => f a | Err e => Err e end.
Notation "'do' x <- r ;; k" := (bind r (fun x => k)) (at level 200, x pattern, right associativity).

Definition err_eqb (a b : err) : bool :=
  match a, b with
  | ValueError, ValueError | TypeError, TypeError | RuntimeError, RuntimeError
  | RecursionError, RecursionError | IndexError, IndexError | KeyError, KeyError
  | InternalError, InternalError | OutOfFuel, OutOfFuel | Crash, Crash
  | WarningError, WarningError => true
  | UserExn x, UserExn y => Z.eqb x y
  | _, _ => false
  end.

(* ---------- keys ---------- *)
(* The key universe (DESIGN §4.1).  KFloat z stands for the float z + 0.5, so it never equals an
   int; KStr is a list of code points; KTup a tuple of ints; KCplx z the complex z+1j;
   KOrd c z an instance of user class c with a total "<" inside the class;
   KUn c z an instance of user class c without "<". *)
Inductive key :=
| KInt (z : Z) | KFloat (z : Z) | KStr (s : list Z) | KNone | KTup (l : list Z)
| KCplx (z : Z) | KOrd (c z : Z) | KUn (c z : Z).

Fixpoint list_Z_eqb (a b : list Z) : bool :=
  match a, b with
  | [], [] => true
  | x :: a', y :: b' => Z.eqb x y && list_Z_eqb a' b'
  | _, _ => false
  end.

Definition key_eqb (a b : key) : bool :=
  match a, b with
  | KInt x, KInt y | KFloat x, KFloat y | KCplx x, KCplx y => Z.eqb x y
  | KStr x, KStr y | KTup x, KTup y => list_Z_eqb x y
  | KNone, KNone => true
  | KOrd c x, KOrd d y | KUn c x, KUn d y => Z.eqb c d && Z.eqb x y
  | _, _ => false
  end.

(* lexicographic "<" on int lists (Python str / tuple-of-int comparison) *)
Fixpoint list_Z_ltb (a b : list Z) : bool :=
  match a, b with
  | [], [] => false
  | [], _ :: _ => true
  | _ :: _, [] => false
  | x :: a', y :: b' => if Z.ltb x y then true else if Z.ltb y x then false else list_Z_ltb a' b'
  end.

(* numbers: int z -> 2z, float z+0.5 -> 2z+1 *)
Definition knum (k : key) : option Z :=
  match k with KInt z => Some (2 * z) | KFloat z => Some (2 * z + 1) | _ => None end.

(* Python's "<": None = TypeError *)
Definition key_lt (a b : key) : option bool :=
  match a, b with
  | KStr x, KStr y => Some (list_Z_ltb x y)
  | KTup x, KTup y => Some (list_Z_ltb x y)
  | KOrd c x, KOrd d y => if Z.eqb c d then Some (Z.ltb x y) else None
  | _, _ => match knum a, knum b with
            | Some x, Some y => Some (Z.ltb x y)
            | _, _ => None
            end
  end.

Definition comparable (a b : key) : bool :=
  match key_lt a b with Some _ => true | None => false end.

Definition key_ltb (a b : key) : bool :=
  match key_lt a b with Some r => r | None => false end.

(* rank = position of the key's f"{module}.{qualname}" among the class names the realiser uses:
   builtins.NoneType < builtins.complex < builtins.float < builtins.int < builtins.str <
   builtins.tuple < zzv.K<c>o < zzv.K<c>u < zzv.K<c+1>o ...   (0 <= c <= 9) *)
Definition key_rank (k : key) : Z :=
  match k with
  | KNone => 0 | KCplx _ => 1 | KFloat _ => 2 | KInt _ => 3 | KStr _ => 4 | KTup _ => 5
  | KOrd c _ => 6 + 2 * c | KUn c _ => 7 + 2 * c
  end.

(* stage 2: compare (qualname, key) tuples *)
Definition key2_lt (a b : key) : option bool :=
  if Z.eqb (key_rank a) (key_rank b) then key_lt a b
  else Some (Z.ltb (key_rank a) (key_rank b)).
Definition key2_ltb (a b : key) : bool :=
  match key2_lt a b with Some r => r | None => false end.

Section Sort.
  Context {A : Type} (ltb : A -> A -> bool).
  Fixpoint insert (x : A) (l : list A) : list A :=
    match l with
    | [] => [x]
    | y :: l' => if ltb y x then y :: insert x l' else x :: l
    end.
  Fixpoint isort (l : list A) : list A :=
    match l with [] => [] | x :: l' => insert x (isort l') end.
End Sort.

(* every pair at distinct positions satisfies p *)
Fixpoint all_pairs {A} (p : A -> A -> bool) (l : list A) : bool :=
  match l with
  | [] => true
  | x :: l' => forallb (p x) l' && all_pairs p l'
  end.

Definition stage1_ok (ks : list key) : bool := all_pairs comparable ks.
Definition stage2_ok (ks : list key) : bool :=
  all_pairs (fun a b => match key2_lt a b with Some _ => true | None => false end) ks.

(* restore : what a sort that failed twice leaves behind.
   restore = true  : the list as it was (documented: "insertion order"; Python twin; fix F5)
   restore = false : unchanged-tree engine — a partially sorted list; not modelled further,
                     the model function below is only used with restore = true. *)
Definition total_order_sort (ks : list key) : list key :=
  if stage1_ok ks then isort key_ltb ks
  else if stage2_ok ks then isort key2_ltb ks
  else ks.

(* ---------- small list utilities used everywhere ---------- *)
Fixpoint lookup {V} (k : key) (l : list (key * V)) : option V :=
  match l with
  | [] => None
  | (k', v) :: l' => if key_eqb k k' then Some v else lookup k l'
  end.

Fixpoint key_mem (k : key) (l : list key) : bool :=
  match l with [] => false | k' :: l' => key_eqb k k' || key_mem k l' end.

Fixpoint keys_nodup (l : list key) : bool :=
  match l with [] => true | k :: l' => negb (key_mem k l') && keys_nodup l' end.

Fixpoint mapM {A B} (f : A -> res B) (l : list A) : res (list B) :=
  match l with
  | [] => Ok []
  | x :: l' => do y <- f x ;; do ys <- mapM f l' ;; Ok (y :: ys)
  end.

Definition opt_Z_eqb (a b : option Z) : bool :=
  match a, b with
  | None, None => true
  | Some x, Some y => Z.eqb x y
  | _, _ => false
  end.

Fixpoint keys_eqb (a b : list key) : bool :=
  match a, b with
  | [], [] => true
  | x :: a', y :: b' => key_eqb x y && keys_eqb a' b'
  | _, _ => false
  end.

Definition opt_keys_eqb (a b : option (list key)) : bool :=
  match a, b with
  | None, None => true
  | Some x, Some y => keys_eqb x y
  | _, _ => false
  end.

(* ---------- option monad helpers ---------- *)
Definition omap {A B} (f : A -> B) (o : option A) : option B :=
  match o with Some a => Some (f a) | None => None end.
Definition obind {A B} (o : option A) (f : A -> option B) : option B :=
  match o with Some a => f a | None => None end.

Fixpoint omapM {A B} (f : A -> option B) (l : list A) : option (list B) :=
  match l with
  | [] => Some []
  | x :: l' => obind (f x) (fun y => omap (cons y) (omapM f l'))
  end.

