(* Unflatten.v — src/treespec/unflatten.cpp UnflattenImpl (stack machine over the node array) and
   src/treespec/treespec.cpp MakeNode. *)
From OptreeModel Require Export Tree.

(* dict[k] = v on an insertion-ordered association list *)
Fixpoint dict_set {V} (d : list (key * V)) (k : key) (v : V) : list (key * V) :=
  match d with
  | [] => [(k, v)]
  | (k', v') :: d' => if key_eqb k k' then (k', v) :: d' else (k', v') :: dict_set d' k v
  end.

Fixpoint dict_set_all {V} (d : list (key * V)) (kvs : list (key * V)) : list (key * V) :=
  match kvs with
  | [] => d
  | (k, v) :: kvs' => dict_set_all (dict_set d k v) kvs'
  end.

(* MakeNode for the three dict kinds: pre-seed with original_keys -> None, then assign *)
Definition dict_build (orig : option (list key)) (ks : list key) (cs : list obj)
  : list (key * obj) :=
  let seed := match orig with
              | Some oks => dict_set_all [] (map (fun k => (k, ONone)) oks)
              | None => []
              end in
  dict_set_all seed (combine ks cs).

Definition make_node (n : node) (cs : list obj) : res obj :=
  if negb (Nat.eqb (length cs) (narity n)) then Err InternalError
  else
    match nkind n with
    | KdLeaf => Err InternalError
    | KdNone => Ok ONone
    | KdTuple => Ok (Node HTuple cs)
    | KdList => Ok (Node HList cs)
    | KdNamed => match ndat n with DClass c => Ok (Node (HNamed c) cs) | _ => Err InternalError end
    | KdStruct => match ndat n with DClass c => Ok (Node (HStruct c) cs) | _ => Err InternalError end
    | KdDeque => match ndat n with DMaxlen m => Ok (Node (HDeque m) cs) | _ => Err InternalError end
    | KdDict =>
      match ndat n with
      | DKeys ks => let d := dict_build (norig n) ks cs in
                    Ok (Node (HDict (map fst d)) (map snd d))
      | _ => Err InternalError
      end
    | KdODict =>
      match ndat n with
      | DKeys ks => let d := dict_build (norig n) ks cs in
                    Ok (Node (HODict (map fst d)) (map snd d))
      | _ => Err InternalError
      end
    | KdDDict =>
      match ndat n with
      | DDefault f ks => let d := dict_build (norig n) ks cs in
                         Ok (Node (HDDict f (map fst d)) (map snd d))
      | _ => Err InternalError
      end
    | KdCustom =>
      match ncustom n, ndat n with
      | Some r, DMeta meta eb => Ok (Node (HCustom (rcls r) meta eb) cs)
      | _, _ => Err InternalError
      end
    end.

(* the agenda is a list with the top of the stack first *)
Fixpoint unflat (ns : list node) (leaves : list obj) (stack : list obj) : res obj :=
  match ns with
  | [] =>
    match leaves with
    | _ :: _ => Err ValueError                       (* too many leaves *)
    | [] => match stack with
            | [x] => Ok x
            | _ => Err InternalError                 (* did not yield a singleton *)
            end
    end
  | n :: ns' =>
    if Nat.ltb (length stack) (narity n) then Err InternalError
    else
      match nkind n with
      | KdLeaf =>
        match leaves with
        | [] => Err ValueError                       (* too few leaves *)
        | x :: leaves' => unflat ns' leaves' (x :: stack)
        end
      | _ =>
        do o <- make_node n (rev (firstn (narity n) stack)) ;;
        unflat ns' leaves (o :: skipn (narity n) stack)
      end
  end.

Definition last_nnodes (ns : list node) : nat :=
  match rev ns with n :: _ => nnodes n | [] => 0 end.

(* PYTREESPEC_SANITY_CHECK *)
Definition sanity (s : spec) : bool :=
  match trav s with [] => false | _ => Nat.eqb (last_nnodes (trav s)) (length (trav s)) end.

Definition unflatten (s : spec) (leaves : list obj) : res obj :=
  if sanity s then unflat (trav s) leaves [] else Err InternalError.
