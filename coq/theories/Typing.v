(* Typing.v — the class recognisers that exist twice: in the engine (include/optree/pytypes.h
   IsNamedTupleClassImpl, IsStructSequenceClassImpl) and in Python (optree/typing.py
   is_namedtuple_class, is_structseq_class), as functions of the traits of a class they look at; and the
   engine's per-type memo table keyed by the address of the class, with weak-reference eviction. *)
From Coq Require Export List ZArith Bool Lia.
Export ListNotations.

(* what kind of value an attribute has *)
Inductive akind := AMissing | AExact | ASubclass | AOther.
(* AExact: exactly the expected builtin type (tuple / int); ASubclass: an instance of a subclass
   (a tuple subclass, bool for int); AOther: something else *)

Record traits := {
  t_is_type : bool;            (* the object is a class at all *)
  t_tuple_sub : bool;          (* issubclass(cls, tuple) *)
  t_fields : akind;            (* kind of cls._fields w.r.t. tuple *)
  t_fields_all_str : bool;     (* every field name is exactly a str *)
  t_make : bool;               (* callable(cls._make) *)
  t_asdict : bool;             (* callable(cls._asdict) *)
  t_bases_tuple : bool;        (* cls.__bases__ == (tuple,) *)
  t_nf : akind; t_nsf : akind; t_nuf : akind;   (* n_fields / n_sequence_fields / n_unnamed_fields w.r.t. int *)
  t_basetype : bool            (* Py_TPFLAGS_BASETYPE *)
}.

Definition is_exact (k : akind) : bool := match k with AExact => true | _ => false end.
Definition is_instance (k : akind) : bool := match k with AExact | ASubclass => true | _ => false end.

(* pytypes.h IsNamedTupleClassImpl *)
Definition engine_is_namedtuple (t : traits) : bool :=
  t_is_type t && t_tuple_sub t && is_exact (t_fields t) && t_fields_all_str t && t_make t && t_asdict t.

(* typing.py is_namedtuple_class; exact_fields = false is the unchanged tree (isinstance), true the
   repaired one (type(...) is tuple) — defect F6 *)
Definition python_is_namedtuple (exact_fields : bool) (t : traits) : bool :=
  t_is_type t && t_tuple_sub t &&
  (if exact_fields then is_exact (t_fields t) else is_instance (t_fields t)) &&
  t_fields_all_str t && t_make t && t_asdict t.

(* pytypes.h IsStructSequenceClassImpl: PyLong_CheckExact on the three counters *)
Definition engine_is_structseq (t : traits) : bool :=
  t_is_type t && t_tuple_sub t && t_bases_tuple t &&
  is_exact (t_nf t) && is_exact (t_nsf t) && is_exact (t_nuf t) && negb (t_basetype t).

(* typing.py is_structseq_class: isinstance(..., int) on the three counters *)
Definition python_is_structseq (t : traits) : bool :=
  t_is_type t && t_bases_tuple t &&
  is_instance (t_nf t) && is_instance (t_nsf t) && is_instance (t_nuf t) && negb (t_basetype t).

(* ---------- the memo table ---------- *)
Record cstate := {
  live : list (Z * traits);     (* address -> the class that lives there now *)
  memo : list (Z * bool);       (* address -> cached answer *)
  cap : nat                     (* MAX_TYPE_CACHE_SIZE *)
}.

Inductive cop :=
| CCreate (a : Z) (t : traits)   (* a new class is allocated at address a (only if a is free) *)
| CFree (a : Z)                  (* the class at a dies: its weak-reference callback runs *)
| CQuery (a : Z).                (* classify the class at a *)

Fixpoint zlookup {V} (a : Z) (l : list (Z * V)) : option V :=
  match l with [] => None | (b, v) :: l' => if Z.eqb a b then Some v else zlookup a l' end.
Fixpoint zremove {V} (a : Z) (l : list (Z * V)) : list (Z * V) :=
  match l with [] => [] | (b, v) :: l' => if Z.eqb a b then zremove a l' else (b, v) :: zremove a l' end.

Section Cache.
  Variable rec : traits -> bool.        (* the recogniser being memoised *)

  Definition cstep (s : cstate) (o : cop) : cstate * option bool :=
    match o with
    | CCreate a t =>
      match zlookup a (live s) with
      | Some _ => (s, None)                                     (* address in use: not a possible event *)
      | None => ({| live := (a, t) :: live s; memo := memo s; cap := cap s |}, None)
      end
    | CFree a =>
      ({| live := zremove a (live s); memo := zremove a (memo s); cap := cap s |}, None)
    | CQuery a =>
      match zlookup a (live s) with
      | None => (s, None)                                       (* no class there: not a possible event *)
      | Some t =>
        match zlookup a (memo s) with
        | Some b => (s, Some b)
        | None =>
          let b := rec t in
          if Nat.ltb (length (memo s)) (cap s)
          then ({| live := live s; memo := (a, b) :: memo s; cap := cap s |}, Some b)
          else (s, Some b)
        end
      end
    end.

  Fixpoint crun (s : cstate) (ops : list cop) : cstate :=
    match ops with [] => s | o :: ops' => crun (fst (cstep s o)) ops' end.
End Cache.
