(* Registry.v — the node-type registry as a state machine (src/registry.cpp Register / Unregister /
   Lookup and optree/registry.py register_pytree_node / unregister_pytree_node / get), and the
   insertion-ordered dict mode (optree/registry.py dict_insertion_ordered) as programs of nested
   with-blocks. *)
From OptreeModel Require Export Tree.

(* ---------- classes as the registry sees them ---------- *)
Inductive rclass :=
| RPlain (n : Z)        (* an ordinary user class *)
| RNamed (n : Z)        (* a namedtuple subclass: a node by default, registration warns *)
| RStruct (n : Z)       (* a struct-sequence type: a node by default, registration warns *)
| RBuiltin (n : Z)      (* tuple, list, dict, ...: can never be (un)registered *)
| RNonClass.            (* not a class at all *)

(* injective code: 5 n + tag *)
Definition rclass_code (c : rclass) : Z :=
  match c with RPlain n => 5 * n | RNamed n => 5 * n + 1 | RStruct n => 5 * n + 2
          | RBuiltin n => 5 * n + 3 | RNonClass => 4 end.

(* the namespace argument as passed by the caller *)
Inductive nsarg :=
| NGlobal              (* the global sentinel *)
| NName (n : Z)        (* a non-empty string, n > 0 *)
| NEmpty               (* '' : rejected *)
| NNotString.          (* not a string : rejected *)

Inductive op :=
| ORegister (c : rclass) (ns : nsarg) (pet_ok : bool)
| OUnregister (c : rclass) (ns : nsarg).

Record rstate := {
  eng : list reg;          (* the engine's registrations (both none_is_leaf variants hold the same) *)
  mirror : list reg;       (* optree/registry.py _NODETYPE_REGISTRY *)
  next_rid : Z;
  warn_err : bool          (* warnings are turned into errors *)
}.

Inductive outcome := OutOk | OutErr (e : err).

Definition ns_code (ns : nsarg) : Z := match ns with NGlobal => 0 | NName n => n | _ => -1 end.

Fixpoint remove_reg (cls ns : Z) (l : list reg) : list reg :=
  match l with
  | [] => []
  | r :: l' => if Z.eqb (rcls r) cls && Z.eqb (rns r) ns then l' else r :: remove_reg cls ns l'
  end.

Definition warns (c : rclass) : bool :=
  match c with RNamed _ | RStruct _ => true | _ => false end.

(* argument validation shared by register and unregister (registry.py, in this order) *)
Definition check_args (c : rclass) (ns : nsarg) : option err :=
  match c with
  | RNonClass => Some TypeError
  | _ => match ns with
         | NNotString => Some TypeError
         | NEmpty => Some ValueError
         | _ => None
         end
  end.

(* every reason for which register raises, in the order the code checks them; the warning for
   namedtuple / struct-sequence classes is emitted after the insertion and, if it raises, the
   insertion is undone (repaired defect F7), so it is one more failing check *)
Definition register_check (s : rstate) (c : rclass) (ns : nsarg) (pet_ok : bool) : option err :=
  match c with
  | RNonClass => Some TypeError
  | _ =>
    if negb pet_ok then Some TypeError
    else match check_args c ns with
         | Some e => Some e
         | None =>
           match c with
           | RBuiltin _ => Some ValueError
           | _ =>
             match find_reg (rclass_code c) (ns_code ns) (eng s) with
             | Some _ => Some ValueError
             | None => if warns c && warn_err s then Some WarningError else None
             end
           end
         end
  end.

Definition unregister_check (s : rstate) (c : rclass) (ns : nsarg) : option err :=
  match check_args c ns with
  | Some e => Some e
  | None =>
    match c with
    | RBuiltin _ => Some ValueError
    | _ => match find_reg (rclass_code c) (ns_code ns) (eng s) with
           | None => Some ValueError
           | Some _ => None
           end
    end
  end.

Definition step (s : rstate) (o : op) : rstate * outcome :=
  match o with
  | ORegister c ns pet_ok =>
    match register_check s c ns pet_ok with
    | Some e => (s, OutErr e)
    | None =>
      let r := {| rcls := rclass_code c; rns := ns_code ns; rid := next_rid s; rpet := 0 |} in
      ({| eng := eng s ++ [r]; mirror := mirror s ++ [r];
          next_rid := next_rid s + 1; warn_err := warn_err s |}, OutOk)
    end
  | OUnregister c ns =>
    match unregister_check s c ns with
    | Some e => (s, OutErr e)
    | None =>
      ({| eng := remove_reg (rclass_code c) (ns_code ns) (eng s);
          mirror := remove_reg (rclass_code c) (ns_code ns) (mirror s);
          next_rid := next_rid s; warn_err := warn_err s |}, OutOk)
    end
  end.

Definition run_ops (s : rstate) (ops : list op) : rstate := fold_left (fun s o => fst (step s o)) ops s.

Definition init_state (we : bool) : rstate :=
  {| eng := []; mirror := []; next_rid := 1; warn_err := we |}.

(* what flattening in namespace N does with an instance of class c: the registration used *)
Definition engine_lookup (s : rstate) (n : Z) (c : rclass) : option reg :=
  let cls := rclass_code c in
  if Z.eqb n 0 then find_reg cls 0 (eng s)
  else match find_reg cls n (eng s) with
       | Some r => Some r
       | None => find_reg cls 0 (eng s)
       end.

(* register_pytree_node.get(cls, namespace=N) for a custom registration *)
Definition python_lookup (s : rstate) (n : Z) (c : rclass) : option reg :=
  let cls := rclass_code c in
  if Z.eqb n 0 then find_reg cls 0 (mirror s)
  else match find_reg cls n (mirror s) with
       | Some r => Some r
       | None => find_reg cls 0 (mirror s)
       end.

(* register_pytree_node.get(namespace=N): global entries, overridden by the namespace's (fix F8) *)
Definition python_all (s : rstate) (n : Z) : list reg :=
  let glob := filter (fun r => Z.eqb (rns r) 0) (mirror s) in
  if Z.eqb n 0 then glob
  else
    let named := filter (fun r => Z.eqb (rns r) n) (mirror s) in
    filter (fun r => match find_reg (rcls r) n named with Some _ => false | None => true end) glob ++ named.

(* ---------- invariant ---------- *)
Fixpoint reg_keys_nodup (l : list reg) : bool :=
  match l with
  | [] => true
  | r :: l' => match find_reg (rcls r) (rns r) l' with Some _ => false | None => reg_keys_nodup l' end
  end.

Definition is_builtin_code (cls : Z) : bool := Z.eqb (cls mod 5) 3.

Definition Inv (s : rstate) : Prop :=
  eng s = mirror s /\ reg_keys_nodup (eng s) = true /\
  forallb (fun r => negb (is_builtin_code (rcls r))) (eng s) = true.

(* ================= the dict-order mode ================= *)
(* state: the set of namespaces with the insertion-ordered flag on (0 = global) *)
Definition mstate := list Z.

Definition mode_get (s : mstate) (n : Z) : bool := Z_mem n s.
Definition mode_set (s : mstate) (n : Z) (b : bool) : mstate :=
  let s' := filter (fun x => negb (Z.eqb x n)) s in
  if b then n :: s' else s'.

(* programs: well-nestedness is syntactic *)
Inductive mprog :=
| MObserve                                  (* flatten somewhere: recorded by the harness *)
| MWith (mode : bool) (n : Z) (body : list mprog) (raises : bool).   (* with-block; the body may end by raising *)

(* the observations are the sequence of mode states seen at each MObserve *)
Fixpoint mrun_fuel (fuel : nat) (s : mstate) (p : mprog) : mstate * list mstate * bool :=
  (* returns (state after, observations, raised) *)
  match fuel with
  | O => (s, [], false)
  | S fuel' =>
    match p with
    | MObserve => (s, [s], false)
    | MWith mode n body raises =>
      let prev := mode_get s n in
      let s1 := mode_set s n mode in
      let '(s2, obs, raised) :=
        (fix go (l : list mprog) (st : mstate) : mstate * list mstate * bool :=
           match l with
           | [] => (st, [], false)
           | q :: l' =>
             let '(st', o1, r1) := mrun_fuel fuel' st q in
             if r1 then (st', o1, true)
             else let '(st'', o2, r2) := go l' st' in (st'', o1 ++ o2, r2)
           end) body s1 in
      (* finally: restore the flag of THIS namespace to what it was on entry *)
      (mode_set s2 n prev, obs, raised || raises)
    end
  end.

Fixpoint mprog_size (p : mprog) : nat :=
  match p with
  | MObserve => 1
  | MWith _ _ body _ => S (fold_right (fun q a => mprog_size q + a)%nat O body)
  end.

Definition mrun (s : mstate) (p : mprog) : mstate * list mstate * bool := mrun_fuel (S (mprog_size p)) s p.

(* is the mode on for flattening with namespace n: own flag or the global one *)
Definition mode_effective (s : mstate) (n : Z) : bool := mode_get s 0 || mode_get s n.
