(* Construct.v — (1) flatten at tree level: the structured treespec of an object, produced directly
   (TFlat); Flatten.flat is its post-order encoding (proved in ConstructProofs.v).
   (2) PyTreeSpec::MakeFromCollection (src/treespec/constructor.cpp), the engine behind
   treespec_from_collection / treespec_tuple / _list / _dict / _namedtuple / _ordereddict /
   _defaultdict / _deque / _structseq: a one-level collection whose children are treespecs. *)
From OptreeModel Require Export Tree Flatten Spec.

Definition tres := (list obj * stree * bool)%type.

Fixpoint tflat_seq (f : obj -> res tres) (l : list obj) : res (list obj * list stree * bool) :=
  match l with
  | [] => Ok ([], [], false)
  | x :: l' =>
    do r1 <- f x ;;
    do r2 <- tflat_seq f l' ;;
    let '(ls1, t1, b1) := r1 in
    let '(ls2, ts2, b2) := r2 in
    Ok (ls1 ++ ls2, t1 :: ts2, b1 || b2)
  end.

Definition raw_node (k : kind) (ar : nat) (d : ndata) (ent : option (list key)) (cu : option reg)
           (orig : option (list key)) : node :=
  {| nkind := k; narity := ar; ndat := d; nentries := ent; ncustom := cu; nleaves := 0; nnodes := 0;
     norig := orig |}.

(* the node of a collection with header h of kind k (given the keys in visiting order) *)
Definition node_of (k : kind) (cu : option reg) (h : hdr) (vks : list key) (ar : nat) : node :=
  match k with
  | KdDict | KdODict | KdDDict =>
    raw_node k ar (match h with HDDict f _ => DDefault f vks | _ => DKeys vks end) None None
             (match k with KdODict => None | _ => hdr_keys h end)
  | KdNamed | KdStruct => raw_node k ar (DClass match h with HNamed x | HStruct x => x | _ => 0 end) None None None
  | KdDeque => raw_node k ar (DMaxlen match h with HDeque m => m | _ => None end) None None None
  | KdCustom =>
    match h with
    | HCustom _ meta eb => raw_node k ar (DMeta meta eb) (match eb with EGiven es => Some es | _ => None end) cu None
    | _ => raw_node k ar DNone None cu None
    end
  | _ => raw_node k ar DNone None None None
  end.

Definition leaf_tres (o : obj) : tres := ([o], st_leaf, false).

Fixpoint tflat (c : cfg) (fuel : nat) (o : obj) : res tres :=
  match fuel with
  | O => Err RecursionError
  | S fuel' =>
    if apply_pred c o then Ok (leaf_tres o)
    else
      let '(k, cu) := get_kind c o in
      match o with
      | Leaf _ => Ok (leaf_tres o)
      | Node h cs =>
        let rec := tflat c fuel' in
        let fin (vks : list key) (found : bool) (r : list obj * list stree * bool) : res tres :=
          let '(ls, ts, b) := r in
          Ok (ls, mkT (node_of k cu h vks (length ts)) ts, b || found) in
        match k with
        | KdLeaf => Ok (leaf_tres o)
        | KdNone => Ok ([], mkT (node_of KdNone None h [] 0) [], false)
        | KdTuple | KdList | KdNamed | KdStruct | KdDeque =>
          do r <- tflat_seq rec cs ;; fin [] false r
        | KdDict | KdODict | KdDDict =>
          match hdr_keys h with
          | None => Err InternalError
          | Some ks =>
            let vks := visit_keys c k ks in
            do ch <- mapM (child_by_key ks cs) vks ;;
            do r <- tflat_seq rec ch ;; fin vks false r
          end
        | KdCustom =>
          match h with
          | HCustom cls meta eb =>
            match eb with
            | ERaise e => Err (UserExn e)
            | EMalTuple _ => Err RuntimeError
            | _ =>
              do r <- tflat_seq rec cs ;;
              match eb with
              | EGiven es => if Nat.eqb (length es) (length cs) then fin [] true r else Err RuntimeError
              | _ => fin [] true r
              end
            end
          | _ => Err InternalError
          end
        end
      end
  end.

(* ================= MakeFromCollection ================= *)
(* verify_children: every child treespec has the collection's none_is_leaf; the non-empty namespaces
   among them agree *)
Fixpoint common_ns (nil : bool) (specs : list sspec) (acc : Z) : res Z :=
  match specs with
  | [] => Ok acc
  | s :: rest =>
    if negb (Bool.eqb (ss_nil s) nil) then Err ValueError
    else if Z.eqb (ss_ns s) 0 then common_ns nil rest acc
    else if Z.eqb acc 0 then common_ns nil rest (ss_ns s)
    else if Z.eqb acc (ss_ns s) then common_ns nil rest acc
    else Err ValueError
  end.

Definition merge_ns (passed common : Z) (is_custom : bool) : res Z :=
  if negb (Z.eqb common 0) then
    if Z.eqb passed 0 then Ok common else if Z.eqb passed common then Ok passed else Err ValueError
  else if is_custom then Ok passed else Ok 0.

(* the collection is given by its header and its children (treespecs) in container order *)
Definition make_from_collection (c : cfg) (h : hdr) (specs : list sspec) : res sspec :=
  let '(k, cu) := get_kind c (Node h []) in
  let build (vks : list key) (children : list sspec) : res sspec :=
    do common <- common_ns (c_nil c) children 0 ;;
    do ns <- merge_ns (c_ns c) common (kind_eqb k KdCustom) ;;
    Ok {| stree_of := mkT (node_of k cu h vks (length children)) (map stree_of children);
          ss_nil := c_nil c; ss_ns := ns |} in
  match k with
  | KdLeaf => Ok {| stree_of := st_leaf; ss_nil := c_nil c; ss_ns := c_ns c |}     (* with a warning *)
  | KdNone => Ok {| stree_of := mkT (node_of KdNone None h [] 0) []; ss_nil := c_nil c; ss_ns := c_ns c |}
  | KdTuple | KdList | KdNamed | KdStruct | KdDeque => build [] specs
  | KdDict | KdODict | KdDDict =>
    match hdr_keys h with
    | None => Err InternalError
    | Some ks =>
      let vks := visit_keys c k ks in
      match omapM (fun key => lookup key (combine ks specs)) vks with
      | None => Err InternalError
      | Some ch => build vks ch
      end
    end
  | KdCustom =>
    match h with
    | HCustom cls meta eb =>
      match eb with
      | ERaise e => Err (UserExn e)
      | EMalTuple _ => Err RuntimeError
      | _ =>
        do r <- build [] specs ;;
        match eb with
        | EGiven es => if Nat.eqb (length es) (length specs) then Ok r else Err RuntimeError
        | _ => Ok r
        end
      end
    | _ => Err InternalError
    end
  end.
