(* Depth.v — the depth a traversal reaches (property C16), chains of nested containers, and the
   re-entrant mutation of a container while the recursive flatten walks it
   (src/treespec/flatten.cpp: arity / key list captured before the loop, one checked item access per
   step, user code runs inside the recursive call between two accesses). *)
From OptreeModel Require Export Tree Flatten.

(* a custom node whose flatten function behaves (2- or 3-tuple, as many entries as children) *)
Definition custom_clean (eb : ebeh) (n : nat) : bool :=
  match eb with
  | EAbsent | ENone => true
  | EGiven es => Nat.eqb (length es) n
  | _ => false
  end.

Definition maxd (d : obj -> nat) (l : list obj) : nat := fold_right (fun x a => Nat.max (d x) a) 0%nat l.

(* number of nested visits the traversal makes below (and including) o: 1 for anything treated as a
   leaf or as a childless node *)
Fixpoint vdepth (c : cfg) (o : obj) : nat :=
  if apply_pred c o then 1%nat else
  match o with
  | Leaf _ => 1%nat
  | Node h cs =>
    match fst (get_kind c o) with
    | KdLeaf | KdNone => 1%nat
    | _ => S (fold_right (fun x a => Nat.max (vdepth c x) a) 0%nat cs)
    end
  end.

(* no visited custom node misbehaves *)
Fixpoint clean (c : cfg) (o : obj) : bool :=
  if apply_pred c o then true else
  match o with
  | Leaf _ => true
  | Node h cs =>
    match fst (get_kind c o) with
    | KdLeaf | KdNone => true
    | KdCustom =>
      match h with HCustom _ _ eb => custom_clean eb (length cs) | _ => false end
      && forallb (clean c) cs
    | _ => forallb (clean c) cs
    end
  end.

(* n one-child containers with header h around o; a self-referential list is the limit of these *)
Fixpoint nest (h : hdr) (n : nat) (o : obj) : obj :=
  match n with O => o | S n' => Node h [nest h n' o] end.

(* ================= mutation while traversing ================= *)
Inductive mut :=
| MNone
| MDelFirst          (* delete the first element / key: before (or at) the cursor *)
| MDelLast           (* delete the last element / key: after the cursor *)
| MClear
| MAppend (x : Z).   (* append an element / insert a new key with value x *)

Definition mut_list (m : mut) (l : list Z) : list Z :=
  match m with
  | MNone => l
  | MDelFirst => tl l
  | MDelLast => removelast l
  | MClear => []
  | MAppend x => l ++ [x]
  end.

(* the list loop: arity n captured; step i reads item i of the CURRENT list with a bounds check, then
   user code (the script's i-th mutation) runs inside the visit of that item.
   checked = false is the unchecked-macro variant (PyList_GET_ITEM): an out-of-range read. *)
Fixpoint trav_list (checked : bool) (remaining : nat) (i : nat) (script : list mut) (l : list Z)
  : res (list Z) :=
  match remaining with
  | O => Ok []
  | S r =>
    match nth_error l i with
    | None => Err (if checked then IndexError else Crash)
    | Some x =>
      let l' := mut_list (nth i script MNone) l in
      do rest <- trav_list checked r (S i) script l' ;;
      Ok (x :: rest)
    end
  end.

Definition flatten_list_mut (checked : bool) (script : list mut) (l : list Z) : res (list Z) :=
  trav_list checked (length l) 0 script l.

(* dict: the key list is captured (and sorted) before the loop; each step looks the key up in the
   CURRENT dict (PyDict_GetItemWithError: KeyError when it is gone; the unchecked variant reads NULL) *)
Definition zdict := list (Z * Z).
Fixpoint zlookup (k : Z) (d : zdict) : option Z :=
  match d with [] => None | (k', v) :: d' => if Z.eqb k k' then Some v else zlookup k d' end.

Definition mut_dict (m : mut) (d : zdict) : zdict :=
  match m with
  | MNone => d
  | MDelFirst => tl d
  | MDelLast => removelast d
  | MClear => []
  (* d[1000 + x] = x: a new last entry, unless the key is already there (same value: no change) *)
  | MAppend x => match zlookup (1000 + x) d with Some _ => d | None => d ++ [(1000 + x, x)] end
  end.

Fixpoint trav_dict (checked : bool) (keys : list Z) (i : nat) (script : list mut) (d : zdict)
  : res (list Z) :=
  match keys with
  | [] => Ok []
  | k :: keys' =>
    match zlookup k d with
    | None => Err (if checked then KeyError else Crash)
    | Some v =>
      let d' := mut_dict (nth i script MNone) d in
      do rest <- trav_dict checked keys' (S i) script d' ;;
      Ok (v :: rest)
    end
  end.

Definition flatten_dict_mut (checked : bool) (script : list mut) (d : zdict) : res (list Z) :=
  trav_dict checked (map fst d) 0 script d.

(* ================= unflatten while user code mutates the list of leaves ================= *)
(* UnflattenImpl (src/treespec/unflatten.cpp) takes the leaves through the Python iterator protocol:
   a list iterator reads item idx of the CURRENT list (bounds-checked; once it has run off the end it
   stays exhausted), and pybind11's iterator fetches the next item as soon as the current one has been
   taken (`++it`), i.e. BEFORE the node rebuilt next runs user code (an unflatten function, a namedtuple
   subclass constructor, a key's __hash__).  The treespec here is n leaves each followed by one such
   callback (the script's i-th mutation of the leaves list).
   checked = false is a variant that captures the item array and its size up front and indexes it
   unchecked: an out-of-range / dangling read as soon as the list shrinks. *)
Record lit := { li_idx : nat; li_done : bool }.

Definition lit_next (s : lit) (l : list Z) : option Z * lit :=
  if li_done s then (None, s)
  else match nth_error l (li_idx s) with
       | Some x => (Some x, {| li_idx := S (li_idx s); li_done := false |})
       | None => (None, {| li_idx := li_idx s; li_done := true |})
       end.

Fixpoint unfl_loop (remaining i : nat) (script : list mut) (cur : option Z) (s : lit) (l : list Z)
  : res (list Z) :=
  match remaining with
  | O => match cur with Some _ => Err ValueError (* Too many leaves *) | None => Ok [] end
  | S r =>
    match cur with
    | None => Err ValueError                                          (* Too few leaves *)
    | Some x =>
      let '(nx, s') := lit_next s l in                                (* ++it *)
      let l' := mut_list (nth i script MNone) l in                    (* the node rebuilt next runs user code *)
      do rest <- unfl_loop r (S i) script nx s' l' ;;
      Ok (x :: rest)
    end
  end.

(* the captured-array variant: n0 = size at entry, item i read from the current list without a check *)
Fixpoint unfl_raw (remaining i n0 : nat) (script : list mut) (l : list Z) : res (list Z) :=
  match remaining with
  | O => if Nat.ltb i n0 then Err ValueError else Ok []
  | S r =>
    if Nat.leb n0 i then Err ValueError
    else match nth_error l i with
         | None => Err Crash
         | Some x =>
           let l' := mut_list (nth i script MNone) l in
           do rest <- unfl_raw r (S i) n0 script l' ;;
           Ok (x :: rest)
         end
  end.

Definition unflatten_leaves_mut (checked : bool) (script : list mut) (n : nat) (l : list Z) : res (list Z) :=
  if checked then
    let '(c0, s0) := lit_next {| li_idx := 0; li_done := false |} l in
    unfl_loop n 0 script c0 s0 l
  else unfl_raw n 0 (length l) script l.
