(* Spec.v — structured treespecs.  [stree] is the tree whose post-order layout is the node array;
   [encode]/[decode] convert (decode is the stack machine every C++ walker implements), and the
   treespec operations of src/treespec/treespec.cpp, richcomparison.cpp, hashing.cpp and
   flatten.cpp (FlattenUpTo) are modelled on [stree] (tree level, DESIGN §2 "two layers": the
   array-level refinement is replaced by decode/encode + correspondence, see DESIGN §13). *)
From OptreeModel Require Export Tree Flatten Unflatten.

Inductive stree := T (n : node) (cs : list stree).

Definition st_node (t : stree) : node := match t with T n _ => n end.
Definition st_children (t : stree) : list stree := match t with T _ cs => cs end.

Fixpoint encode (t : stree) : list node :=
  match t with
  | T n cs => flat_map encode cs ++ [n]
  end.

(* the stack machine: pop [narity] subtrees, push the node *)
Fixpoint decode_go (ns : list node) (stack : list stree) : option stree :=
  match ns with
  | [] => match stack with [t] => Some t | _ => None end
  | n :: ns' =>
    if Nat.ltb (length stack) (narity n) then None
    else decode_go ns' (T n (rev (firstn (narity n) stack)) :: skipn (narity n) stack)
  end.
Definition decode (ns : list node) : option stree := decode_go ns [].

Definition sum_nat (l : list nat) : nat := fold_right Nat.add O l.
Definition st_leaves (t : stree) : nat := nleaves (st_node t).
Definition st_nodes (t : stree) : nat := nnodes (st_node t).

(* recompute both counters of a node from its children *)
Definition recount (n : node) (cs : list stree) : node :=
  {| nkind := nkind n; narity := length cs; ndat := ndat n; nentries := nentries n;
     ncustom := ncustom n;
     nleaves := match nkind n with KdLeaf => 1 | _ => sum_nat (map st_leaves cs) end;
     nnodes := S (sum_nat (map st_nodes cs)); norig := norig n |}.
Definition mkT (n : node) (cs : list stree) : stree := T (recount n cs) cs.

Definition st_leaf : stree := T leaf_node [].
Definition is_leaf_node (n : node) : bool := kind_eqb (nkind n) KdLeaf.

(* well-formed: arity and counters agree with the children; leaves have no children *)
Fixpoint wf_stree (t : stree) : bool :=
  match t with
  | T n cs =>
    Nat.eqb (narity n) (length cs) &&
    Nat.eqb (nnodes n) (S (sum_nat (map st_nodes cs))) &&
    (if is_leaf_node n then Nat.eqb (nleaves n) 1 && Nat.eqb (length cs) 0
     else Nat.eqb (nleaves n) (sum_nat (map st_leaves cs))) &&
    forallb wf_stree cs
  end.

(* ---------- keys / entries of a node ---------- *)
Definition node_keys (n : node) : option (list key) :=
  match ndat n with DKeys ks | DDefault _ ks => Some ks | _ => None end.

(* PyTreeSpec::Entries *)
Definition node_entries (n : node) : list key :=
  match nentries n with
  | Some es => es
  | None =>
    match nkind n with
    | KdLeaf | KdNone => []
    | KdDict | KdODict | KdDDict => match node_keys n with Some ks => ks | None => [] end
    | _ => pos_keys (narity n) 0
    end
  end.

(* ---------- paths (PathsImpl) ---------- *)
Fixpoint st_paths (t : stree) : list path :=
  match t with
  | T n cs =>
    if is_leaf_node n then [[]]
    else
      (fix go (es : list key) (l : list stree) {struct l} : list path :=
         match l with
         | [] => []
         | c :: l' =>
           match es with
           | [] => []        (* cannot happen on well-formed specs *)
           | e :: es' => map (cons e) (st_paths c) ++ go es' l'
           end
         end) (node_entries n) cs
  end.

(* ---------- accessors: typed entries ---------- *)
(* entry class codes: 1 SequenceEntry 2 MappingEntry 3 NamedTupleEntry 4 StructSequenceEntry
   5 the registration's path_entry_type (rpet code looked up by the harness) *)
Inductive tentry := TE (e : key) (ecls : Z) (ntype : Z * Z) (k : kind).

(* node type as (tag, id): (0,0) tuple (1,0) list (2,0) dict (3,0) OrderedDict (4,0) defaultdict
   (5,0) deque (6,cls) namedtuple class (7,cls) struct sequence (8,cls) custom class (9,0) NoneType *)
Definition node_type (n : node) : Z * Z :=
  match nkind n with
  | KdTuple => (0, 0) | KdList => (1, 0) | KdDict => (2, 0) | KdODict => (3, 0) | KdDDict => (4, 0)
  | KdDeque => (5, 0)
  | KdNamed => (6, match ndat n with DClass c => c | _ => -1 end)
  | KdStruct => (7, match ndat n with DClass c => c | _ => -1 end)
  | KdCustom => (8, match ncustom n with Some r => rcls r | None => -1 end)
  | KdNone => (9, 0)
  | KdLeaf => (10, 0)
  end.

Definition entry_class (n : node) : Z :=
  match nkind n with
  | KdTuple | KdList | KdDeque => 1
  | KdDict | KdODict | KdDDict => 2
  | KdNamed => 3
  | KdStruct => 4
  | KdCustom => (* AutoEntry (code 0) resolves to FlattenedEntry (code 4) for plain classes *)
    match ncustom n with Some r => 100 + (if Z.eqb (rpet r) 0 then 4 else rpet r) | None => -1 end
  | _ => 0
  end.

Fixpoint st_accessors (t : stree) : list (list tentry) :=
  match t with
  | T n cs =>
    if is_leaf_node n then [[]]
    else
      (fix go (es : list key) (l : list stree) {struct l} : list (list tentry) :=
         match l with
         | [] => []
         | c :: l' =>
           match es with
           | [] => []
           | e :: es' =>
             map (cons (TE e (entry_class n) (node_type n) (nkind n))) (st_accessors c) ++ go es' l'
           end
         end) (node_entries n) cs
  end.

(* ---------- inspection (children / child / entry / one_level) ---------- *)
(* Python index semantics: index in [-n, n) *)
Definition norm_index (i : Z) (n : nat) : res nat :=
  let z := Z.of_nat n in
  if (i <? - z) || (z <=? i) then Err IndexError
  else Ok (Z.to_nat (if i <? 0 then i + z else i)).

Definition st_child (t : stree) (i : Z) : res stree :=
  do k <- norm_index i (narity (st_node t)) ;;
  match nth_error (st_children t) k with Some c => Ok c | None => Err InternalError end.

Definition st_entry (t : stree) (i : Z) : res key :=
  do k <- norm_index i (narity (st_node t)) ;;
  match nth_error (node_entries (st_node t)) k with Some e => Ok e | None => Err InternalError end.

Definition st_one_level (t : stree) : stree :=
  match t with T n cs => mkT n (map (fun _ => st_leaf) cs) end.

Definition st_is_one_level (t : stree) : bool :=
  negb (is_leaf_node (st_node t)) && forallb (fun c => is_leaf_node (st_node c)) (st_children t).

(* ---------- compose / transform ---------- *)
Fixpoint st_compose (a b : stree) : stree :=
  match a with
  | T n cs => if is_leaf_node n then b else mkT n (map (fun c => st_compose c b) cs)
  end.

Definition ns_compatible (a b : Z) : bool := Z.eqb a 0 || Z.eqb b 0 || Z.eqb a b.
Definition ns_merge (self other : Z) : Z := if Z.eqb other 0 then self else other.

Record sspec := { stree_of : stree; ss_nil : bool; ss_ns : Z }.

Definition spec_of (s : sspec) : spec :=
  {| trav := encode (stree_of s); snil := ss_nil s; sns := ss_ns s |}.
Definition sspec_of (s : spec) : option sspec :=
  match decode (trav s) with
  | Some t => Some {| stree_of := t; ss_nil := snil s; ss_ns := sns s |}
  | None => None
  end.

Definition ss_compose (a b : sspec) : res sspec :=
  if negb (Bool.eqb (ss_nil a) (ss_nil b)) then Err ValueError
  else if negb (ns_compatible (ss_ns a) (ss_ns b)) then Err ValueError
  else Ok {| stree_of := st_compose (stree_of a) (stree_of b); ss_nil := ss_nil a;
             ss_ns := ns_merge (ss_ns a) (ss_ns b) |}.

Definition ss_children (s : sspec) : list sspec :=
  map (fun c => {| stree_of := c; ss_nil := ss_nil s; ss_ns := ss_ns s |}) (st_children (stree_of s)).
Definition ss_child (s : sspec) (i : Z) : res sspec :=
  do c <- st_child (stree_of s) i ;;
  Ok {| stree_of := c; ss_nil := ss_nil s; ss_ns := ss_ns s |}.
Definition ss_one_level (s : sspec) : sspec :=
  {| stree_of := st_one_level (stree_of s); ss_nil := ss_nil s; ss_ns := ss_ns s |}.

(* Transform with f_node = identity on one-level specs and f_leaf = const s (or identity) *)
Definition ss_transform_leaves (a : sspec) (b : option sspec) : res sspec :=
  match b with
  | None => Ok a
  | Some b' =>
    (* a leafless outer never calls f_leaf: nothing is checked, no namespace is merged *)
    if Nat.eqb (st_leaves (stree_of a)) 0 then Ok a
    else if negb (Bool.eqb (ss_nil a) (ss_nil b')) then Err ValueError
    else
      if negb (ns_compatible (ss_ns a) (ss_ns b')) then Err ValueError
      else Ok {| stree_of := st_compose (stree_of a) (stree_of b'); ss_nil := ss_nil a;
                 ss_ns := if Z.eqb (ss_ns a) 0 then ss_ns b' else ss_ns a |}
  end.

(* ---------- equality and hash ---------- *)
(* richcomparison.cpp EqualTo, node by node over the two arrays *)
Definition node_eqb (a b : node) : bool :=
  kind_eqb (nkind a) (nkind b) && Nat.eqb (narity a) (narity b) &&
  opt_reg_eqb (ncustom a) (ncustom b) && ndata_eqb (ndat a) (ndat b).

Fixpoint nodes_eqb (a b : list node) : bool :=
  match a, b with
  | [], [] => true
  | x :: a', y :: b' => node_eqb x y && nodes_eqb a' b'
  | _, _ => false
  end.

Definition spec_eqb (a b : spec) : bool :=
  Nat.eqb (length (trav a)) (length (trav b)) && Bool.eqb (snil a) (snil b) &&
  ns_compatible (sns a) (sns b) && nodes_eqb (trav a) (trav b).

(* the sequence of values fed to HashCombine (hashing.cpp), as abstract atoms *)
Inductive hatom :=
| HZ (z : Z) | HB (b : bool) | HKind (k : kind) | HKey (k : key) | HCls (c : Z) | HOptZ (o : option Z)
| HNs (ns : Z).

Definition node_hash_seq (n : node) : list hatom :=
  [HKind (nkind n); HZ (Z.of_nat (narity n)); HZ (Z.of_nat (nleaves n)); HZ (Z.of_nat (nnodes n))] ++
  match nkind n with
  | KdCustom => [HCls (match ncustom n with Some r => rcls r | None => -1 end)]
  | KdDict | KdODict => match ndat n with DKeys ks => map HKey ks | _ => [] end
  | KdDDict => match ndat n with DDefault f ks => HZ f :: map HKey ks | _ => [] end
  | KdNamed | KdStruct => match ndat n with DClass c => [HCls c] | _ => [] end
  | KdDeque => match ndat n with DMaxlen m => [HOptZ m] | _ => [] end
  | _ => [HOptZ None]
  end.

(* hash_ns = true is the unchanged tree (namespace hashed, defect F1); false the repaired one *)
Definition spec_hash_seq (hash_ns : bool) (s : spec) : list hatom :=
  [HZ (Z.of_nat (match rev (trav s) with n :: _ => nleaves n | [] => 0 end));
   HZ (Z.of_nat (last_nnodes (trav s))); HB (snil s)] ++
  (if hash_ns then [HNs (sns s)] else []) ++
  flat_map node_hash_seq (trav s).

(* ---------- prefix (IsPrefix) ---------- *)
Definition is_dict_kind (k : kind) : bool :=
  match k with KdDict | KdODict | KdDDict => true | _ => false end.

Definition keys_subset (a b : list key) : bool := forallb (fun k => key_mem k b) a.
Definition keys_same_set (a b : list key) : bool :=
  Nat.eqb (length a) (length b) && keys_subset a b.   (* keys are unique *)

(* node-level compatibility of a non-leaf prefix node with the other node *)
Definition prefix_node_ok (a b : node) : bool :=
  Nat.eqb (narity a) (narity b) && opt_reg_eqb (ncustom a) (ncustom b) &&
  match nkind a with
  | KdNone | KdTuple | KdList | KdDeque => kind_eqb (nkind a) (nkind b)
  | KdDict | KdODict | KdDDict =>
    is_dict_kind (nkind b) &&
    match node_keys a, node_keys b with
    | Some ka, Some kb => keys_same_set ka kb
    | _, _ => false
    end
  | KdNamed | KdStruct | KdCustom => kind_eqb (nkind a) (nkind b) && ndata_eqb (ndat a) (ndat b)
  | KdLeaf => false
  end.

(* the child of [b] that sits under key k *)
Definition child_at_key (ks : list key) (cs : list stree) (k : key) : option stree :=
  lookup k (combine ks cs).

(* returns (is_prefix, all_leaves_match) *)
Fixpoint st_prefix (a b : stree) : bool * bool :=
  match a, b with
  | T na ca, T nb cb =>
    if is_leaf_node na then (true, is_leaf_node nb)
    else if negb (prefix_node_ok na nb) then (false, true)
    else
      let bs : option (list stree) :=
        if is_dict_kind (nkind na) then
          match node_keys na, node_keys nb with
          | Some ka, Some kb => omapM (child_at_key kb cb) ka
          | _, _ => None
          end
        else Some cb in
      match bs with
      | None => (false, true)
      | Some cb' =>
        (fix go (l : list stree) (l' : list stree) : bool * bool :=
           match l, l' with
           | [], [] => (true, true)
           | x :: t, y :: t' =>
             let '(p1, m1) := st_prefix x y in
             let '(p2, m2) := go t t' in
             (p1 && p2, m1 && m2)
           | _, _ => (false, true)
           end) ca cb'
      end
  end.

Definition ss_is_prefix (a b : sspec) (strict : bool) : bool :=
  if negb (Bool.eqb (ss_nil a) (ss_nil b)) then false
  else if negb (ns_compatible (ss_ns a) (ss_ns b)) then false
  else if Nat.ltb (st_nodes (stree_of b)) (st_nodes (stree_of a)) then false
  else let '(p, m) := st_prefix (stree_of a) (stree_of b) in
       p && (negb strict || negb m).

(* ---------- flatten_up_to (FlattenUpTo) ---------- *)
(* The C++ walks the array backwards with an agenda, so children are visited right to left;
   errors are reported in that order. *)
Section MapMRev2.
  Context {A B C : Type} (f : A -> B -> res C).
  (* visits the pairs from the right, returns results in left-to-right order *)
  Fixpoint mapM_rev2 (l : list A) (l' : list B) : res (list C) :=
    match l, l' with
    | [], [] => Ok []
    | x :: t, y :: t' =>
      do rest <- mapM_rev2 t t' ;;
      do r <- f x y ;;
      Ok (r :: rest)
    | _, _ => Err InternalError
    end.
End MapMRev2.

Definition exact_kind_of (o : obj) : option kind :=
  match o with
  | Leaf _ => None
  | Node h _ =>
    match h with
    | HNone => Some KdNone | HTuple => Some KdTuple | HList => Some KdList
    | HDict _ => Some KdDict | HODict _ => Some KdODict | HDDict _ _ => Some KdDDict
    | HDeque _ => Some KdDeque | HNamed _ => Some KdNamed | HStruct _ => Some KdStruct
    | HCustom _ _ _ => Some KdCustom
    end
  end.

Fixpoint up_to (c : cfg) (t : stree) (o : obj) : res (list obj) :=
  match t with
  | T n ts =>
    let seq_case (want : kind) : res (list obj) :=
      match o with
      | Node h cs =>
        if match exact_kind_of o with Some k => kind_eqb k want | None => false end
        then if Nat.eqb (length cs) (narity n)
             then do r <- mapM_rev2 (up_to c) ts cs ;; Ok (concat r)
             else Err ValueError
        else Err ValueError
      | _ => Err ValueError
      end in
    match nkind n with
    | KdLeaf => Ok [o]
    | KdNone => match o with Node HNone _ => Ok [] | _ => Err ValueError end
    | KdTuple => seq_case KdTuple
    | KdList => seq_case KdList
    | KdDeque => seq_case KdDeque
    | KdNamed | KdStruct =>
      match o with
      | Node h cs =>
        let cls_ok := match h, ndat n with
                      | HNamed x, DClass y => kind_eqb (nkind n) KdNamed && Z.eqb x y
                      | HStruct x, DClass y => kind_eqb (nkind n) KdStruct && Z.eqb x y
                      | _, _ => false
                      end in
        let kind_ok := match h with
                       | HNamed _ => kind_eqb (nkind n) KdNamed
                       | HStruct _ => kind_eqb (nkind n) KdStruct
                       | _ => false end in
        if negb kind_ok then Err ValueError
        else if negb (Nat.eqb (length cs) (narity n)) then Err ValueError
        else if negb cls_ok then Err ValueError
        else do r <- mapM_rev2 (up_to c) ts cs ;; Ok (concat r)
      | _ => Err ValueError
      end
    | KdDict | KdODict | KdDDict =>
      match o with
      | Node h cs =>
        match hdr_keys h, node_keys n with
        | Some oks, Some ks =>
          if keys_same_set ks oks
          then do ch <- mapM (child_by_key oks cs) ks ;;
               do r <- mapM_rev2 (up_to c) ts ch ;; Ok (concat r)
          else Err ValueError
        | _, _ => Err ValueError
        end
      | _ => Err ValueError
      end
    | KdCustom =>
      match o with
      | Node (HCustom cls meta eb) cs =>
        (* the registration of the object's type in the treespec's namespace must be this node's *)
        if negb (opt_reg_eqb (lookup_reg c cls) (ncustom n)) then Err ValueError
        else match eb with
             | ERaise e => Err (UserExn e)
             | EMalTuple _ => Err RuntimeError
             | _ =>
               if negb (ndata_eqb (ndat n) (DMeta meta eb)) then Err ValueError
               else if negb (Nat.eqb (length cs) (narity n)) then Err ValueError
               else do r <- mapM_rev2 (up_to c) ts cs ;; Ok (concat r)
             end
      | Node _ _ | Leaf _ =>
        (* any other type: Lookup gives a different (or no) registration *)
        Err ValueError
      end
    end
  end.

(* the cfg used for the registry lookup is the treespec's own (namespace, none_is_leaf) *)
Definition ss_flatten_up_to (regs : list reg) (s : sspec) (o : obj) : res (list obj) :=
  up_to {| c_nil := ss_nil s; c_ns := ss_ns s; c_pred := None; c_reg := regs; c_ins := [];
           c_limit := 0 |} (stree_of s) o.

(* ---------- broadcast to common suffix ---------- *)
Fixpoint st_join (a b : stree) : res stree :=
  match a, b with
  | T na ca, T nb cb =>
    if is_leaf_node na then Ok b
    else if is_leaf_node nb then Ok a
    else
      let kids (cb' : list stree) : res stree :=
        do r <- (fix go (l l' : list stree) : res (list stree) :=
                   match l, l' with
                   | [], [] => Ok []
                   | x :: t, y :: t' =>
                     (* the C++ recurses from the last child to the first *)
                     do rest <- go t t' ;;
                     do r <- st_join x y ;;
                     Ok (r :: rest)
                   | _, _ => Err InternalError
                   end) ca cb' ;;
        Ok (mkT na r) in
      match nkind na with
      | KdNone => if kind_eqb (nkind nb) KdNone then Ok a else Err ValueError
      | KdTuple | KdList | KdDeque =>
        if negb (kind_eqb (nkind na) (nkind nb)) then Err ValueError
        else if negb (Nat.eqb (narity na) (narity nb)) then Err ValueError
        else kids cb
      | KdDict | KdODict | KdDDict =>
        if negb (is_dict_kind (nkind nb)) then Err ValueError
        else match node_keys na, node_keys nb with
             | Some ka, Some kb =>
               if negb (keys_same_set ka kb) then Err ValueError
               else match omapM (child_at_key kb cb) ka with
                    | Some cb' => kids cb'
                    | None => Err InternalError
                    end
             | _, _ => Err InternalError
             end
      | KdNamed | KdStruct =>
        if negb (kind_eqb (nkind na) (nkind nb)) then Err ValueError
        else if negb (Nat.eqb (narity na) (narity nb)) then Err ValueError
        else if negb (ndata_eqb (ndat na) (ndat nb)) then Err ValueError
        else kids cb
      | KdCustom =>
        if negb (kind_eqb (nkind na) (nkind nb)) then Err ValueError
        else if negb (opt_reg_eqb (ncustom na) (ncustom nb)) then Err ValueError
        else if negb (Nat.eqb (narity na) (narity nb)) then Err ValueError
        else if negb (ndata_eqb (ndat na) (ndat nb)) then Err ValueError
        else kids cb
      | KdLeaf => Err InternalError
      end
  end.

Definition ss_broadcast (a b : sspec) : res sspec :=
  if negb (Bool.eqb (ss_nil a) (ss_nil b)) then Err ValueError
  else if negb (ns_compatible (ss_ns a) (ss_ns b)) then Err ValueError
  else do t <- st_join (stree_of a) (stree_of b) ;;
       Ok {| stree_of := t; ss_nil := ss_nil a; ss_ns := ns_merge (ss_ns a) (ss_ns b) |}.
