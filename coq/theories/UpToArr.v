(* UpToArr.v — PyTreeSpec::FlattenUpTo as the C++ runs it (src/treespec/flatten.cpp:562-803): one loop
   over the node array through a reverse iterator with an agenda (a stack of the objects still to be
   matched, the last child on top) and the result list filled from its end. *)
From OptreeModel Require Export Tree Flatten Spec PrefixArr.

(* one iteration's `switch (node.kind)` for a node that is not a leaf: the checks of that case, then the
   children it pushes on the agenda, in the order it pushes them *)
Definition node_children (c : cfg) (n : node) (o : obj) : res (list obj) :=
  let seq_case (want : kind) : res (list obj) :=
    match o with
    | Node h cs =>
      if match exact_kind_of o with Some k => kind_eqb k want | None => false end
      then if Nat.eqb (length cs) (narity n) then Ok cs else Err ValueError
      else Err ValueError
    | _ => Err ValueError
    end in
  match nkind n with
  | KdLeaf => Err InternalError
  | KdNone => match o with Node HNone _ => Ok [] | _ => Err ValueError end
  | KdTuple => seq_case KdTuple
  | KdList => seq_case KdList
  | KdDeque => seq_case KdDeque
  | KdNamed | KdStruct =>
    match o with
    | Node h cs =>
      let cls_ok := match h, ndat n with
                    | HNamed x, DClass y => kind_eqb (nkind n) KdNamed && Z.eqb x y
                    | HStruct x, DClass y => kind_eqb (nkind n) KdStruct && Z.eqb x y
                    | _, _ => false
                    end in
      let kind_ok := match h with
                     | HNamed _ => kind_eqb (nkind n) KdNamed
                     | HStruct _ => kind_eqb (nkind n) KdStruct
                     | _ => false end in
      if negb kind_ok then Err ValueError
      else if negb (Nat.eqb (length cs) (narity n)) then Err ValueError
      else if negb cls_ok then Err ValueError
      else Ok cs
    | _ => Err ValueError
    end
  | KdDict | KdODict | KdDDict =>
    match o with
    | Node h cs =>
      match hdr_keys h, node_keys n with
      | Some oks, Some ks =>
        if keys_same_set ks oks then mapM (child_by_key oks cs) ks else Err ValueError
      | _, _ => Err ValueError
      end
    | _ => Err ValueError
    end
  | KdCustom =>
    match o with
    | Node (HCustom cls meta eb) cs =>
      if negb (opt_reg_eqb (lookup_reg c cls) (ncustom n)) then Err ValueError
      else match eb with
           | ERaise e => Err (UserExn e)
           | EMalTuple _ => Err RuntimeError
           | _ =>
             if negb (ndata_eqb (ndat n) (DMeta meta eb)) then Err ValueError
             else if negb (Nat.eqb (length cs) (narity n)) then Err ValueError
             else Ok cs
           end
    | Node _ _ | Leaf _ => Err ValueError
    end
  end.

(* [ra]: the node array from the iterator to rend(); [agenda]: top first; [acc]: the tail of the result
   list that has been filled; [rem]: leaf + 1, the slots still empty *)
Fixpoint fut (c : cfg) (ra : list node) (agenda : list obj) (acc : list obj) (rem : nat) : res (list obj) :=
  match agenda with
  | [] =>
    (* the loop has ended: it != crend() || leaf != -1 is a structure mismatch *)
    match ra with
    | [] => if Nat.eqb rem 0 then Ok acc else Err ValueError
    | _ :: _ => Err ValueError
    end
  | o :: agenda' =>
    match ra with
    | [] => Err ValueError                                   (* it == crend() with a non-empty agenda *)
    | n :: ra' =>
      if is_leaf_node n then
        match rem with
        | O => Err InternalError                             (* EXPECT_GE(leaf, 0) *)
        | S rem' => fut c ra' agenda' (o :: acc) rem'
        end
      else
        do cu <- node_children c n o ;;
        fut c ra' (rev cu ++ agenda') acc rem
    end
  end.

Definition arr_flatten_up_to (c : cfg) (s : spec) (o : obj) : res (list obj) :=
  match rev (trav s) with
  | [] => Err InternalError                                  (* sanity check *)
  | root :: _ => fut c (rev (trav s)) [o] [] (nleaves root)
  end.
