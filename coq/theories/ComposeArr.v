(* ComposeArr.v — PyTreeSpec::Compose as the C++ runs it (src/treespec/treespec.cpp Compose): one pass
   over the outer node array; every leaf is replaced by a copy of the whole inner array, every other
   node is kept with its two counters rescaled by the sizes of the inner treespec. *)
From OptreeModel Require Export Tree Spec PrefixArr.

Definition rescale (n : node) (inner_leaves inner_nodes : nat) : node :=
  {| nkind := nkind n; narity := narity n; ndat := ndat n; nentries := nentries n; ncustom := ncustom n;
     nleaves := (nleaves n * inner_leaves)%nat;
     nnodes := ((nnodes n - nleaves n) + nleaves n * inner_nodes)%nat;
     norig := norig n |}.

Definition arr_compose (a b : spec) : res spec :=
  if negb (Bool.eqb (snil a) (snil b)) then Err ValueError
  else if negb (Z.eqb (sns a) 0) && negb (Z.eqb (sns b) 0) && negb (Z.eqb (sns a) (sns b)) then Err ValueError
  else
    match rev (trav a), rev (trav b) with
    | oroot :: _, iroot :: _ =>
      let il := nleaves iroot in
      let inn := length (trav b) in
      let out := flat_map (fun n => if is_leaf_node n then trav b else [rescale n il inn]) (trav a) in
      match rev out with
      | [] => Err InternalError
      | root :: _ =>
        if negb (Nat.eqb (nleaves root) (nleaves oroot * il)) then Err InternalError
        else if negb (Nat.eqb (nnodes root) ((length (trav a) - nleaves oroot) + nleaves oroot * inn)) then Err InternalError
        else Ok {| trav := out; snil := snil a; sns := if Z.eqb (sns b) 0 then sns a else sns b |}
      end
    | _, _ => Err InternalError
    end.
