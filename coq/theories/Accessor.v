(* Accessor.v — what applying a path / accessor to a tree does (optree/accessor.py: SequenceEntry
   and NamedTupleEntry / StructSequenceEntry index the node, MappingEntry looks the key up, the entry
   classes of custom nodes look up the child under its declared entry). *)
From OptreeModel Require Export Tree Flatten.

Fixpoint key_index (k : key) (es : list key) : option nat :=
  match es with
  | [] => None
  | e :: es' => if key_eqb k e then Some O
                else match key_index k es' with Some i => Some (S i) | None => None end
  end.

Definition nth_by_key (cs : list obj) (e : key) : option obj :=
  match e with
  | KInt i => if Z.leb 0 i then nth_error cs (Z.to_nat i) else None
  | _ => None
  end.

Definition obj_child (o : obj) (e : key) : option obj :=
  match o with
  | Leaf _ => None
  | Node h cs =>
    match h with
    | HNone => None
    | HTuple | HList | HDeque _ | HNamed _ | HStruct _ => nth_by_key cs e
    | HDict ks | HODict ks | HDDict _ ks => lookup e (combine ks cs)
    | HCustom _ _ (EGiven es) =>
      match key_index e es with Some i => nth_error cs i | None => None end
    | HCustom _ _ _ => nth_by_key cs e
    end
  end.

Fixpoint get_path (o : obj) (p : path) : option obj :=
  match p with
  | [] => Some o
  | e :: p' => match obj_child o e with Some c => get_path c p' | None => None end
  end.

(* explicit custom entries are pairwise distinct, everywhere in the tree *)
Fixpoint entries_ok (o : obj) : bool :=
  match o with
  | Leaf _ => true
  | Node h cs =>
    match h with HCustom _ _ (EGiven es) => keys_nodup es | _ => true end && forallb entries_ok cs
  end.
