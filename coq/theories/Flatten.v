(* Flatten.v — the three traversals of a tree:
     flat       : src/treespec/flatten.cpp FlattenIntoImpl   (recursive)
     flat_path  : src/treespec/flatten.cpp FlattenIntoWithPathImpl (recursive, entry stack)
     iter_run   : src/treespec/traversal.cpp PyTreeIter::NextImpl (agenda)
   Recursion is on fuel = MAX_RECURSION_DEPTH + 1 - depth; fuel 0 is exactly "depth > MAX". *)
From OptreeModel Require Export Tree.

(* children of a dict in visiting order: by the (possibly sorted) key list *)
Definition child_by_key (ks : list key) (cs : list obj) (k : key) : res obj :=
  match lookup k (combine ks cs) with
  | Some o => Ok o
  | None => Err Crash   (* PyDict_GetItem returned NULL: cannot happen for a well-formed dict *)
  end.

(* DictKeys + optional TotalOrderSort: the visiting order of a dict-like node *)
Definition visit_keys (c : cfg) (k : kind) (ks : list key) : list key :=
  match k with
  | KdODict => ks
  | _ => if ins_ordered c then ks else total_order_sort ks
  end.

Definition fres := (list obj * list node * bool)%type.

Fixpoint flat_seq (f : obj -> res fres) (l : list obj) : res fres :=
  match l with
  | [] => Ok ([], [], false)
  | x :: l' =>
    do r1 <- f x ;;
    do r2 <- flat_seq f l' ;;
    let '(ls1, ns1, b1) := r1 in
    let '(ls2, ns2, b2) := r2 in
    Ok (ls1 ++ ls2, ns1 ++ ns2, b1 || b2)
  end.

Definition mk_node (k : kind) (ar : nat) (d : ndata) (ent : option (list key))
           (cu : option reg) (orig : option (list key)) (r : fres) : fres :=
  let '(ls, ns, b) := r in
  (ls, ns ++ [{| nkind := k; narity := ar; ndat := d; nentries := ent; ncustom := cu;
                 nleaves := length ls; nnodes := S (length ns); norig := orig |}], b).

Fixpoint flat (c : cfg) (fuel : nat) (o : obj) : res fres :=
  match fuel with
  | O => Err RecursionError
  | S fuel' =>
    if apply_pred c o then Ok ([o], [leaf_node], false)
    else
      let '(k, cu) := get_kind c o in
      match o with
      | Leaf _ => Ok ([o], [leaf_node], false)
      | Node h cs =>
        let rec := flat c fuel' in
        match k with
        | KdLeaf => Ok ([o], [leaf_node], false)
        | KdNone => Ok (mk_node KdNone 0 DNone None None None ([], [], false))
        | KdTuple | KdList =>
          do r <- flat_seq rec cs ;;
          Ok (mk_node k (length cs) DNone None None None r)
        | KdDict | KdODict | KdDDict =>
          match hdr_keys h with
          | None => Err InternalError
          | Some ks =>
            let vks := visit_keys c k ks in
            do ch <- mapM (child_by_key ks cs) vks ;;
            do r <- flat_seq rec ch ;;
            let orig := match k with KdODict => None | _ => Some ks end in
            let d := match h with HDDict f _ => DDefault f vks | _ => DKeys vks end in
            Ok (mk_node k (length ks) d None None orig r)
          end
        | KdNamed | KdStruct =>
          let cls := match h with HNamed x | HStruct x => x | _ => 0 end in
          do r <- flat_seq rec cs ;;
          Ok (mk_node k (length cs) (DClass cls) None None None r)
        | KdDeque =>
          let m := match h with HDeque m => m | _ => None end in
          do r <- flat_seq rec cs ;;
          Ok (mk_node k (length cs) (DMaxlen m) None None None r)
        | KdCustom =>
          match h with
          | HCustom cls meta eb =>
            match eb with
            | ERaise e => Err (UserExn e)
            | EMalTuple _ => Err RuntimeError
            | _ =>
              do r <- flat_seq rec cs ;;
              let '(ls, ns, _) := r in
              match eb with
              | EGiven es =>
                if Nat.eqb (length es) (length cs)
                then Ok (mk_node k (length cs) (DMeta meta eb) (Some es) cu None (ls, ns, true))
                else Err RuntimeError
              | _ => Ok (mk_node k (length cs) (DMeta meta eb) None cu None (ls, ns, true))
              end
            end
          | _ => Err InternalError
          end
        end
      end
  end.

Definition spec_ns (c : cfg) (found : bool) : Z :=
  if found || ins_ordered_here c then c_ns c else 0.

Definition flatten (c : cfg) (o : obj) : res (list obj * spec) :=
  do r <- flat c (S (c_limit c)) o ;;
  let '(ls, ns, found) := r in
  Ok (ls, {| trav := ns; snil := c_nil c; sns := spec_ns c found |}).

(* ---------- flatten with path ---------- *)
(* a path entry is a key: sequence positions are KInt i *)
Definition path := list key.
Definition pres := (list path * list obj * list node * bool)%type.

Fixpoint pos_keys (n : nat) (start : Z) : list key :=
  match n with O => [] | S n' => KInt start :: pos_keys n' (start + 1) end.

(* visit children paired with their entries; the entry stack is passed reversed (top first) *)
Fixpoint flatp_seq (f : list key -> obj -> res pres) (stk : list key)
         (l : list (key * obj)) : res pres :=
  match l with
  | [] => Ok ([], [], [], false)
  | (e, x) :: l' =>
    do r1 <- f (e :: stk) x ;;
    do r2 <- flatp_seq f stk l' ;;
    let '(ps1, ls1, ns1, b1) := r1 in
    let '(ps2, ls2, ns2, b2) := r2 in
    Ok (ps1 ++ ps2, ls1 ++ ls2, ns1 ++ ns2, b1 || b2)
  end.

Definition mk_pnode (k : kind) (ar : nat) (d : ndata) (ent : option (list key))
           (cu : option reg) (orig : option (list key)) (r : pres) : pres :=
  let '(ps, ls, ns, b) := r in
  (ps, ls, ns ++ [{| nkind := k; narity := ar; ndat := d; nentries := ent; ncustom := cu;
                     nleaves := length ls; nnodes := S (length ns); norig := orig |}], b).

(* the custom-with-entries loop: raises as soon as there are more children than entries,
   after having recursed into the children that did have an entry *)
Fixpoint flatp_custom (f : list key -> obj -> res pres) (stk : list key)
         (es : list key) (cs : list obj) : res pres :=
  match cs with
  | [] => Ok ([], [], [], false)
  | x :: cs' =>
    match es with
    | [] => Err RuntimeError
    | e :: es' =>
      do r1 <- f (e :: stk) x ;;
      do r2 <- flatp_custom f stk es' cs' ;;
      let '(ps1, ls1, ns1, b1) := r1 in
      let '(ps2, ls2, ns2, b2) := r2 in
      Ok (ps1 ++ ps2, ls1 ++ ls2, ns1 ++ ns2, b1 || b2)
    end
  end.

Fixpoint flat_path (c : cfg) (fuel : nat) (stk : list key) (o : obj) : res pres :=
  match fuel with
  | O => Err RecursionError
  | S fuel' =>
    let leafres : res pres := Ok ([rev stk], [o], [leaf_node], false) in
    if apply_pred c o then leafres
    else
      let '(k, cu) := get_kind c o in
      match o with
      | Leaf _ => leafres
      | Node h cs =>
        let rec := flat_path c fuel' in
        let seq := combine (pos_keys (length cs) 0) cs in
        match k with
        | KdLeaf => leafres
        | KdNone => Ok (mk_pnode KdNone 0 DNone None None None ([], [], [], false))
        | KdTuple | KdList =>
          do r <- flatp_seq rec stk seq ;;
          Ok (mk_pnode k (length cs) DNone None None None r)
        | KdDict | KdODict | KdDDict =>
          match hdr_keys h with
          | None => Err InternalError
          | Some ks =>
            let vks := visit_keys c k ks in
            do ch <- mapM (child_by_key ks cs) vks ;;
            do r <- flatp_seq rec stk (combine vks ch) ;;
            let orig := match k with KdODict => None | _ => Some ks end in
            let d := match h with HDDict f _ => DDefault f vks | _ => DKeys vks end in
            Ok (mk_pnode k (length ks) d None None orig r)
          end
        | KdNamed | KdStruct =>
          let cls := match h with HNamed x | HStruct x => x | _ => 0 end in
          do r <- flatp_seq rec stk seq ;;
          Ok (mk_pnode k (length cs) (DClass cls) None None None r)
        | KdDeque =>
          let m := match h with HDeque m => m | _ => None end in
          do r <- flatp_seq rec stk seq ;;
          Ok (mk_pnode k (length cs) (DMaxlen m) None None None r)
        | KdCustom =>
          match h with
          | HCustom cls meta eb =>
            match eb with
            | ERaise e => Err (UserExn e)
            | EMalTuple _ => Err RuntimeError
            | EGiven es =>
              do r <- flatp_custom rec stk es cs ;;
              if Nat.eqb (length es) (length cs)
              then let '(ps, ls, ns, _) := r in
                   Ok (mk_pnode k (length es) (DMeta meta eb) (Some es) cu None (ps, ls, ns, true))
              else Err RuntimeError
            | _ =>
              do r <- flatp_seq rec stk seq ;;
              let '(ps, ls, ns, _) := r in
              Ok (mk_pnode k (length cs) (DMeta meta eb) None cu None (ps, ls, ns, true))
            end
          | _ => Err InternalError
          end
        end
      end
  end.

Definition flatten_with_path (c : cfg) (o : obj) : res (list path * list obj * spec) :=
  do r <- flat_path c (S (c_limit c)) [] o ;;
  let '(ps, ls, ns, found) := r in
  Ok (ps, ls, {| trav := ns; snil := c_nil c; sns := spec_ns c found |}).

(* ---------- the leaf iterator ---------- *)
(* agenda of (object, remaining fuel); [steps] bounds the number of loop iterations so that the
   definition is total — the theorems show it is never exhausted when steps >= size of the tree.
   iter_next returns the next leaf and the new agenda, or None at StopIteration. *)
Definition agenda := list (obj * nat).

Definition push_children (cs : list obj) (fuel : nat) (ag : agenda) : agenda :=
  map (fun x => (x, fuel)) cs ++ ag.   (* reversed push + pop from the back = in-order prepend *)

Definition iter_expand (c : cfg) (o : obj) (fuel' : nat) (ag : agenda)
  : res (option obj * agenda) :=
  (* one iteration of the while loop, after the depth check: Some leaf / None = continue *)
  if apply_pred c o then Ok (Some o, ag)
  else
    let '(k, cu) := get_kind c o in
    match o with
    | Leaf _ => Ok (Some o, ag)
    | Node h cs =>
      match k with
      | KdLeaf => Ok (Some o, ag)
      | KdNone => Ok (None, ag)
      | KdTuple | KdList | KdNamed | KdStruct | KdDeque => Ok (None, push_children cs fuel' ag)
      | KdDict | KdODict | KdDDict =>
        match hdr_keys h with
        | None => Err InternalError
        | Some ks =>
          do ch <- mapM (child_by_key ks cs) (visit_keys c k ks) ;;
          Ok (None, push_children ch fuel' ag)
        end
      | KdCustom =>
        match h with
        | HCustom cls meta eb =>
          match eb with
          | ERaise e => Err (UserExn e)
          | EMalTuple _ => Err RuntimeError
          | EGiven es =>
            if Nat.eqb (length es) (length cs) then Ok (None, push_children cs fuel' ag)
            else Err RuntimeError
          | _ => Ok (None, push_children cs fuel' ag)
          end
        | _ => Err InternalError
        end
      end
    end.

Fixpoint iter_next (c : cfg) (steps : nat) (ag : agenda) : res (option (obj * agenda)) :=
  match steps with
  | O => Err OutOfFuel
  | S steps' =>
    match ag with
    | [] => Ok None
    | (o, fuel) :: ag' =>
      match fuel with
      | O => Err RecursionError
      | S fuel' =>
        do r <- iter_expand c o fuel' ag' ;;
        match r with
        | (Some leaf, ag'') => Ok (Some (leaf, ag''))
        | (None, ag'') => iter_next c steps' ag''
        end
      end
    end
  end.

Fixpoint iter_drain (c : cfg) (steps : nat) (ag : agenda) : res (list obj) :=
  match steps with
  | O => Err OutOfFuel
  | S steps' =>
    match ag with
    | [] => Ok []
    | (o, fuel) :: ag' =>
      match fuel with
      | O => Err RecursionError
      | S fuel' =>
        do r <- iter_expand c o fuel' ag' ;;
        match r with
        | (Some leaf, ag'') => do rest <- iter_drain c steps' ag'' ;; Ok (leaf :: rest)
        | (None, ag'') => iter_drain c steps' ag''
        end
      end
    end
  end.

Fixpoint obj_size (o : obj) : nat :=
  match o with
  | Leaf _ => 1
  | Node _ cs => S (fold_right (fun x a => obj_size x + a)%nat O cs)
  end.

(* [steps] is a totality device of the model, not part of the implementation: the loop runs once per
   visited node, i.e. length of the node array when flatten succeeds, at most obj_size otherwise *)
Definition iter_bound (c : cfg) (o : obj) : nat :=
  match flat c (S (c_limit c)) o with
  | Ok r => length (snd (fst r))
  | Err _ => obj_size o
  end.

Definition tree_iter_list (c : cfg) (o : obj) : res (list obj) :=
  iter_drain c (S (iter_bound c o)) [(o, S (c_limit c))].

(* ops.py tree_leaves / tree_structure / tree_paths / tree_is_leaf / all_leaves *)
Definition tree_leaves (c : cfg) (o : obj) : res (list obj) :=
  do r <- flatten c o ;; Ok (fst r).
Definition tree_structure (c : cfg) (o : obj) : res spec :=
  do r <- flatten c o ;; Ok (snd r).
Definition tree_paths (c : cfg) (o : obj) : res (list path) :=
  do r <- flatten_with_path c o ;; let '(ps, _, _) := r in Ok ps.

(* flatten.cpp IsLeafImpl / AllLeavesImpl *)
Definition tree_is_leaf (c : cfg) (o : obj) : bool :=
  apply_pred c o || kind_eqb (fst (get_kind c o)) KdLeaf.
Definition all_leaves (c : cfg) (l : list obj) : bool := forallb (tree_is_leaf c) l.
