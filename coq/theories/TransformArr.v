(* TransformArr.v — PyTreeSpec::Transform as the C++ runs it (src/treespec/treespec.cpp Transform) for the
   functions the model covers: f_node absent (every internal node keeps its one-level treespec) and
   f_leaf returning a fixed treespec.  One forward pass over the node array with a stack of pending
   (num_leaves, num_nodes) pairs: a leaf is replaced by a copy of the inner array and pushes the inner
   sizes; an internal node pops `arity` pairs, is emitted with the summed counters and pushes them. *)
From OptreeModel Require Export Tree Spec Pickle PrefixArr JoinArr.

Fixpoint tr_go (inner : list node) (il inn : nat) (ns : list node) (out : list node) (stack : list (nat * nat))
  : res (list node * list (nat * nat)) :=
  match ns with
  | [] => Ok (out, stack)
  | n :: ns' =>
    if is_leaf_node n then tr_go inner il inn ns' (out ++ inner) ((il, inn) :: stack)
    else if Nat.ltb (length stack) (narity n) then Err InternalError         (* EXPECT_GE(pending.size(), arity) *)
    else
      let popped := firstn (narity n) stack in
      let nl := sum_fst popped in
      let nn := S (sum_snd popped) in
      tr_go inner il inn ns' (out ++ [patch n nn nl]) ((nl, nn) :: skipn (narity n) stack)
  end.

(* transform(None, lambda leafspec: b) *)
Definition arr_transform_leaves (a b : spec) : res spec :=
  match rev (trav a), rev (trav b) with
  | aroot :: _, broot :: _ =>
    if Nat.eqb (nleaves aroot) 0 then
      (* no leaf: f_leaf is never called, nothing is checked *)
      Ok a
    else if negb (Bool.eqb (snil a) (snil b)) then Err ValueError
    else if negb (Z.eqb (sns a) 0) && negb (Z.eqb (sns b) 0) && negb (Z.eqb (sns a) (sns b)) then Err ValueError
    else
      do r <- tr_go (trav b) (nleaves broot) (length (trav b)) (trav a) [] [] ;;
      let '(out, stack) := r in
      match stack, rev out with
      | [_], root :: _ =>
        (* GetNumLeaves() + num_extra_leaves with num_extra_leaves = sum over the leaves of (inner - 1),
           in signed arithmetic: L_a * L_b and N_a - L_a + L_a * N_b *)
        if negb (Nat.eqb (nleaves root) (nleaves aroot * nleaves broot)) then Err InternalError
        else if negb (Nat.eqb (nnodes root) ((length (trav a) - nleaves aroot) + nleaves aroot * length (trav b))) then Err InternalError
        else if negb (Nat.eqb (nnodes root) (length out)) then Err InternalError
        else Ok {| trav := out; snil := snil a; sns := if Z.eqb (sns a) 0 then sns b else sns a |}
      | _, _ => Err InternalError
      end
  | _, _ => Err InternalError
  end.

(* ---------- f_leaf returning a DIFFERENT treespec for every leaf ----------
   The same forward pass when the leaf function answers the i-th call with the i-th treespec of a list
   (a stateful Python function): the i-th leaf is replaced by a copy of the i-th inner array and pushes
   that treespec's own (num_leaves, num_nodes).  The option checks run per transformed treespec, in call
   order: none_is_leaf must agree with the outer's; the first non-empty namespace met (starting from the
   outer's) becomes the common one and every later non-empty namespace must equal it. *)
Definition root_leaves (b : list node) : nat := match rev b with r :: _ => nleaves r | [] => O end.

Fixpoint tr_gen (ns : list node) (inners : list (list node)) (out : list node) (stack : list (nat * nat))
  : res (list node * list (nat * nat) * list (list node)) :=
  match ns with
  | [] => Ok (out, stack, inners)
  | n :: ns' =>
    if is_leaf_node n then
      match inners with
      | [] => Err InternalError                       (* outside the model: one answer per leaf is supplied *)
      | b :: inners' => tr_gen ns' inners' (out ++ b) ((root_leaves b, length b) :: stack)
      end
    else if Nat.ltb (length stack) (narity n) then Err InternalError
    else
      let popped := firstn (narity n) stack in
      let nl := sum_fst popped in
      let nn := S (sum_snd popped) in
      tr_gen ns' inners (out ++ [patch n nn nl]) ((nl, nn) :: skipn (narity n) stack)
  end.

Fixpoint tr_opts (nil0 : bool) (common : Z) (bs : list spec) : res Z :=
  match bs with
  | [] => Ok common
  | b :: bs' =>
    if negb (Bool.eqb nil0 (snil b)) then Err ValueError
    else if Z.eqb (sns b) 0 then tr_opts nil0 common bs'
    else if Z.eqb common 0 then tr_opts nil0 (sns b) bs'
    else if Z.eqb (sns b) common then tr_opts nil0 common bs'
    else Err ValueError
  end.

Definition sum_Z (l : list Z) : Z := fold_right Z.add 0%Z l.

(* transform(None, f_leaf) where the i-th call of f_leaf returns the i-th element of bs *)
Definition arr_transform_gen (a : spec) (bs : list spec) : res spec :=
  match rev (trav a) with
  | aroot :: _ =>
    if negb (Nat.eqb (length bs) (nleaves aroot)) then Err InternalError   (* outside the model *)
    else
      do ns <- tr_opts (snil a) (sns a) bs ;;
      do r <- tr_gen (trav a) (map trav bs) [] [] ;;
      let '(out, stack, _) := r in
      match stack, rev out with
      | [_], root :: _ =>
        (* GetNumLeaves() + num_extra_leaves, GetNumNodes() + num_extra_nodes, signed *)
        let xl := (Z.of_nat (nleaves aroot) + sum_Z (map (fun b => Z.of_nat (root_leaves (trav b)) - 1) bs))%Z in
        let xn := (Z.of_nat (length (trav a)) + sum_Z (map (fun b => Z.of_nat (length (trav b)) - 1) bs))%Z in
        if negb (Z.eqb (Z.of_nat (nleaves root)) xl) then Err InternalError
        else if negb (Z.eqb (Z.of_nat (nnodes root)) xn) then Err InternalError
        else if negb (Nat.eqb (nnodes root) (length out)) then Err InternalError
        else Ok {| trav := out; snil := snil a; sns := ns |}
      | _, _ => Err InternalError
      end
  | [] => Err InternalError
  end.
