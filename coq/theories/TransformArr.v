(* TransformArr.v — PyTreeSpec::Transform as the C++ runs it (src/treespec/treespec.cpp Transform) for the
   functions the model covers: f_node absent (every internal node keeps its one-level treespec) and
   f_leaf returning a fixed treespec.  One forward pass over the node array with a stack of pending
   (num_leaves, num_nodes) pairs: a leaf is replaced by a copy of the inner array and pushes the inner
   sizes; an internal node pops `arity` pairs, is emitted with the summed counters and pushes them. *)
From OptreeModel Require Export Tree Spec Pickle PrefixArr JoinArr.

Fixpoint tr_go (inner : list node) (il inn : nat) (ns : list node) (out : list node) (stack : list (nat * nat))
  : res (list node * list (nat * nat)) :=
  match ns with
  | [] => Ok (out, stack)
  | n :: ns' =>
    if is_leaf_node n then tr_go inner il inn ns' (out ++ inner) ((il, inn) :: stack)
    else if Nat.ltb (length stack) (narity n) then Err InternalError         (* EXPECT_GE(pending.size(), arity) *)
    else
      let popped := firstn (narity n) stack in
      let nl := sum_fst popped in
      let nn := S (sum_snd popped) in
      tr_go inner il inn ns' (out ++ [patch n nn nl]) ((nl, nn) :: skipn (narity n) stack)
  end.

(* transform(None, lambda leafspec: b) *)
Definition arr_transform_leaves (a b : spec) : res spec :=
  match rev (trav a), rev (trav b) with
  | aroot :: _, broot :: _ =>
    if Nat.eqb (nleaves aroot) 0 then
      (* no leaf: f_leaf is never called, nothing is checked *)
      Ok a
    else if negb (Bool.eqb (snil a) (snil b)) then Err ValueError
    else if negb (Z.eqb (sns a) 0) && negb (Z.eqb (sns b) 0) && negb (Z.eqb (sns a) (sns b)) then Err ValueError
    else
      do r <- tr_go (trav b) (nleaves broot) (length (trav b)) (trav a) [] [] ;;
      let '(out, stack) := r in
      match stack, rev out with
      | [_], root :: _ =>
        (* GetNumLeaves() + num_extra_leaves with num_extra_leaves = sum over the leaves of (inner - 1),
           in signed arithmetic: L_a * L_b and N_a - L_a + L_a * N_b *)
        if negb (Nat.eqb (nleaves root) (nleaves aroot * nleaves broot)) then Err InternalError
        else if negb (Nat.eqb (nnodes root) ((length (trav a) - nleaves aroot) + nleaves aroot * length (trav b))) then Err InternalError
        else if negb (Nat.eqb (nnodes root) (length out)) then Err InternalError
        else Ok {| trav := out; snil := snil a; sns := if Z.eqb (sns a) 0 then sns b else sns a |}
      | _, _ => Err InternalError
      end
  | _, _ => Err InternalError
  end.
