(* TransformArr.v — PyTreeSpec::Transform as the C++ runs it (src/treespec/treespec.cpp Transform) for the
   functions the model covers: f_node absent (every internal node keeps its one-level treespec) and
   f_leaf returning a fixed treespec.  One forward pass over the node array with a stack of pending
   (num_leaves, num_nodes) pairs: a leaf is replaced by a copy of the inner array and pushes the inner
   sizes; an internal node pops `arity` pairs, is emitted with the summed counters and pushes them. *)
From OptreeModel Require Export Tree Spec Pickle PrefixArr JoinArr.

Fixpoint tr_go (inner : list node) (il inn : nat) (ns : list node) (out : list node) (stack : list (nat * nat))
  : res (list node * list (nat * nat)) :=
  match ns with
  | [] => Ok (out, stack)
  | n :: ns' =>
    if is_leaf_node n then tr_go inner il inn ns' (out ++ inner) ((il, inn) :: stack)
    else if Nat.ltb (length stack) (narity n) then Err InternalError         (* EXPECT_GE(pending.size(), arity) *)
    else
      let popped := firstn (narity n) stack in
      let nl := sum_fst popped in
      let nn := S (sum_snd popped) in
      tr_go inner il inn ns' (out ++ [patch n nn nl]) ((nl, nn) :: skipn (narity n) stack)
  end.

(* transform(None, lambda leafspec: b) *)
Definition arr_transform_leaves (a b : spec) : res spec :=
  match rev (trav a), rev (trav b) with
  | aroot :: _, broot :: _ =>
    if Nat.eqb (nleaves aroot) 0 then
      (* no leaf: f_leaf is never called, nothing is checked *)
      Ok a
    else if negb (Bool.eqb (snil a) (snil b)) then Err ValueError
    else if negb (Z.eqb (sns a) 0) && negb (Z.eqb (sns b) 0) && negb (Z.eqb (sns a) (sns b)) then Err ValueError
    else
      do r <- tr_go (trav b) (nleaves broot) (length (trav b)) (trav a) [] [] ;;
      let '(out, stack) := r in
      match stack, rev out with
      | [_], root :: _ =>
        (* GetNumLeaves() + num_extra_leaves with num_extra_leaves = sum over the leaves of (inner - 1),
           in signed arithmetic: L_a * L_b and N_a - L_a + L_a * N_b *)
        if negb (Nat.eqb (nleaves root) (nleaves aroot * nleaves broot)) then Err InternalError
        else if negb (Nat.eqb (nnodes root) ((length (trav a) - nleaves aroot) + nleaves aroot * length (trav b))) then Err InternalError
        else if negb (Nat.eqb (nnodes root) (length out)) then Err InternalError
        else Ok {| trav := out; snil := snil a; sns := if Z.eqb (sns a) 0 then sns b else sns a |}
      | _, _ => Err InternalError
      end
  | _, _ => Err InternalError
  end.

(* ---------- f_leaf returning a DIFFERENT treespec for every leaf ----------
   The same forward pass when the leaf function answers the i-th call with the i-th treespec of a list
   (a stateful Python function): the i-th leaf is replaced by a copy of the i-th inner array and pushes
   that treespec's own (num_leaves, num_nodes).  The option checks run per transformed treespec, in call
   order: none_is_leaf must agree with the outer's; the first non-empty namespace met (starting from the
   outer's) becomes the common one and every later non-empty namespace must equal it. *)
Definition root_leaves (b : list node) : nat := match rev b with r :: _ => nleaves r | [] => O end.

Fixpoint tr_gen (ns : list node) (inners : list (list node)) (out : list node) (stack : list (nat * nat))
  : res (list node * list (nat * nat) * list (list node)) :=
  match ns with
  | [] => Ok (out, stack, inners)
  | n :: ns' =>
    if is_leaf_node n then
      match inners with
      | [] => Err InternalError                       (* outside the model: one answer per leaf is supplied *)
      | b :: inners' => tr_gen ns' inners' (out ++ b) ((root_leaves b, length b) :: stack)
      end
    else if Nat.ltb (length stack) (narity n) then Err InternalError
    else
      let popped := firstn (narity n) stack in
      let nl := sum_fst popped in
      let nn := S (sum_snd popped) in
      tr_gen ns' inners (out ++ [patch n nn nl]) ((nl, nn) :: skipn (narity n) stack)
  end.

Fixpoint tr_opts (nil0 : bool) (common : Z) (bs : list spec) : res Z :=
  match bs with
  | [] => Ok common
  | b :: bs' =>
    if negb (Bool.eqb nil0 (snil b)) then Err ValueError
    else if Z.eqb (sns b) 0 then tr_opts nil0 common bs'
    else if Z.eqb common 0 then tr_opts nil0 (sns b) bs'
    else if Z.eqb (sns b) common then tr_opts nil0 common bs'
    else Err ValueError
  end.

Definition sum_Z (l : list Z) : Z := fold_right Z.add 0%Z l.

(* transform(None, f_leaf) where the i-th call of f_leaf returns the i-th element of bs *)
Definition arr_transform_gen (a : spec) (bs : list spec) : res spec :=
  match rev (trav a) with
  | aroot :: _ =>
    if negb (Nat.eqb (length bs) (nleaves aroot)) then Err InternalError   (* outside the model *)
    else
      do ns <- tr_opts (snil a) (sns a) bs ;;
      do r <- tr_gen (trav a) (map trav bs) [] [] ;;
      let '(out, stack, _) := r in
      match stack, rev out with
      | [_], root :: _ =>
        (* GetNumLeaves() + num_extra_leaves, GetNumNodes() + num_extra_nodes, signed *)
        let xl := (Z.of_nat (nleaves aroot) + sum_Z (map (fun b => Z.of_nat (root_leaves (trav b)) - 1) bs))%Z in
        let xn := (Z.of_nat (length (trav a)) + sum_Z (map (fun b => Z.of_nat (length (trav b)) - 1) bs))%Z in
        if negb (Z.eqb (Z.of_nat (nleaves root)) xl) then Err InternalError
        else if negb (Z.eqb (Z.of_nat (nnodes root)) xn) then Err InternalError
        else if negb (Nat.eqb (nnodes root) (length out)) then Err InternalError
        else Ok {| trav := out; snil := snil a; sns := ns |}
      | _, _ => Err InternalError
      end
  | [] => Err InternalError
  end.

(* ---------- both functions: one answer per node, in array (= call) order ----------
   Transform as the C++ runs it with f_node and f_leaf both arbitrary: the loop visits the nodes of the
   array in order and asks the function of the node's class for a treespec (None: that function is absent,
   or it returned its argument — the node's own one-level treespec / the leaf treespec).
   A leaf is replaced by a copy of its answer.  An internal node's answer must have `arity` leaves and
   `arity + 1` nodes (ValueError otherwise); only its ROOT node is used: it is emitted with the counters
   summed from the pending pairs of the node's (already transformed) children. *)
Definition one_level_arr (n : node) : list node :=
  if is_leaf_node n then [n] else repeat leaf_node (narity n) ++ [patch n (S (narity n)) (narity n)].

Fixpoint tr_all (ns : list node) (answers : list (option (list node))) (out : list node) (stack : list (nat * nat))
         (xl xn : Z)                                  (* num_extra_leaves, num_extra_nodes *)
  : res (list node * list (nat * nat) * list (option (list node)) * Z * Z) :=
  match ns with
  | [] => Ok (out, stack, answers, xl, xn)
  | n :: ns' =>
    match answers with
    | [] => Err InternalError                         (* outside the model: one answer per node is supplied *)
    | a :: answers' =>
      let b := match a with Some b => b | None => one_level_arr n end in
      if is_leaf_node n then
        tr_all ns' answers' (out ++ b) ((root_leaves b, length b) :: stack)
               (xl + (Z.of_nat (root_leaves b) - 1)) (xn + (Z.of_nat (length b) - 1))
      else if negb (Nat.eqb (root_leaves b) (narity n)) then Err ValueError
      else if negb (Nat.eqb (length b) (S (narity n))) then Err ValueError
      else
        match rev b with
        | [] => Err InternalError
        | m :: _ =>
          if Nat.ltb (length stack) (narity n) then Err InternalError
          else
            let popped := firstn (narity n) stack in
            let nl := sum_fst popped in
            let nn := S (sum_snd popped) in
            tr_all ns' answers' (out ++ [patch m nn nl]) ((nl, nn) :: skipn (narity n) stack) xl xn
        end
    end
  end.

(* the options of the answers actually given (an absent function's treespec carries the outer's own) *)
Fixpoint given {A} (l : list (option A)) : list A :=
  match l with [] => [] | Some x :: l' => x :: given l' | None :: l' => given l' end.

Definition arr_transform_all (a : spec) (answers : list (option spec)) : res spec :=
  match rev (trav a) with
  | aroot :: _ =>
    if negb (Nat.eqb (length answers) (length (trav a))) then Err InternalError   (* outside the model *)
    else
      do ns <- tr_opts (snil a) (sns a) (given answers) ;;
      do r <- tr_all (trav a) (map (option_map trav) answers) [] [] 0 0 ;;
      let '(out, stack, _, xl, xn) := r in
      match stack, rev out with
      | [_], root :: _ =>
        if negb (Z.eqb (Z.of_nat (nleaves root)) (Z.of_nat (nleaves aroot) + xl)) then Err InternalError
        else if negb (Z.eqb (Z.of_nat (nnodes root)) (Z.of_nat (length (trav a)) + xn)) then Err InternalError
        else if negb (Nat.eqb (nnodes root) (length out)) then Err InternalError
        else Ok {| trav := out; snil := snil a; sns := ns |}
      | _, _ => Err InternalError
      end
  | [] => Err InternalError
  end.
