(* Dataclass.v — optree/dataclasses.py: how the decorator splits the fields of a dataclass into
   pytree children and metadata, and the generated flatten / unflatten functions; and
   optree/functools.py partial. The behaviour of the standard dataclass machinery (how __init__
   stores init fields and how non-init fields are computed from them) is a Section parameter. *)
From Coq Require Export List ZArith Bool Lia.
Export ListNotations.

Record dfield := { fname : Z; finit : bool; fnode : bool }.   (* declaration order = list order *)

Definition children_fields (fs : list dfield) : list dfield := filter fnode fs.
Definition metadata_fields (fs : list dfield) : list dfield :=
  filter (fun f => negb (fnode f) && finit f) fs.

(* the decorator rejects a pytree-node field that is not an __init__ parameter *)
Definition layout_ok (fs : list dfield) : bool := forallb (fun f => implb (fnode f) (finit f)) fs.

Section Instances.
  Variable V : Type.                                   (* field values *)
  Definition inst := list (Z * V).                     (* an instance: name -> value, declaration order *)

  Fixpoint get (n : Z) (x : inst) : option V :=
    match x with [] => None | (m, v) :: x' => if Z.eqb n m then Some v else get n x' end.

  (* what __init__ / __post_init__ compute for the non-init fields from the init fields *)
  Variable post : inst -> inst.

  Definition flatten_dc (fs : list dfield) (x : inst) : list (option V) * list (Z * option V) * list Z :=
    (map (fun f => get (fname f) x) (children_fields fs),
     map (fun f => (fname f, get (fname f) x)) (metadata_fields fs),
     map fname (children_fields fs)).

  (* cls(kwargs...): kwargs = children by name, updated with the metadata *)
  Definition kwargs_of (fs : list dfield) (children : list V) (metadata : list (Z * V)) : inst :=
    combine (map fname (children_fields fs)) children ++ metadata.

  Definition construct (fs : list dfield) (kw : inst) : inst :=
    (* the instance in declaration order: init fields from the keyword arguments, the others recomputed *)
    let initv := flat_map (fun f => if finit f then match get (fname f) kw with Some v => [(fname f, v)] | None => [] end else []) fs in
    flat_map (fun f => if finit f
                       then match get (fname f) kw with Some v => [(fname f, v)] | None => [] end
                       else match get (fname f) (post initv) with Some v => [(fname f, v)] | None => [] end) fs.
End Instances.

(* ---------- optree/accessor.py DataclassEntry ---------- *)
(* a dataclass registered as a custom node whose flatten function hands out the values of its INIT fields
   in declaration order without entries gets the integer entries 0..n-1; DataclassEntry.field resolves
   the integer entry i to the i-th init field (`init_fields[entry]`), a string entry to itself *)
Definition init_fields (fs : list dfield) : list dfield := filter finit fs.
Definition dc_entry_field (fs : list dfield) (i : nat) : option Z :=
  option_map fname (nth_error (init_fields fs) i).
(* the variant that indexes ALL fields (what a "simplification" to `fields[entry]` does) *)
Definition dc_entry_field_all (fs : list dfield) (i : nat) : option Z :=
  option_map fname (nth_error fs i).

Section DataclassEntry.
  Variable V : Type.
  (* the children a custom flatten function of that kind hands out *)
  Definition init_children (fs : list dfield) (x : inst V) : list (option V) :=
    map (fun f => get V (fname f) x) (init_fields fs).
End DataclassEntry.

(* ---------- partial ---------- *)
Inductive callable := CFun (id : Z) | CPartial (f : callable) (nargs : nat) (kws : list Z).

(* functools.partial.__new__ merges when func is itself a partial; optree's shim defeats it *)
Definition stdlib_partial (f : callable) (nargs : nat) (kws : list Z) : callable :=
  match f with
  | CPartial g n k => CPartial g (n + nargs) (k ++ kws)
  | _ => CPartial f nargs kws
  end.
Definition optree_partial (f : callable) (nargs : nat) (kws : list Z) : callable := CPartial f nargs kws.

Definition partial_flatten (p : callable) : option (nat * list Z * callable) :=
  match p with CPartial f n k => Some (n, k, f) | CFun _ => None end.
