(* Pickle.v — src/treespec/serialization.cpp ToPickleable / FromPickleable: the state that is
   pickled, its validation on load, and the re-binding of custom nodes to the CURRENT registration of
   their type in the recorded namespace. *)
From OptreeModel Require Export Tree Flatten Unflatten.

Record pnode := {
  pkind : kind; parity : nat; pdat : ndata; pentries : option (list key);
  pcls : option Z;              (* the custom type, not the registration *)
  pleaves : nat; pnodes : nat; porig : option (list key)
}.

Definition pstate := (list pnode * bool * Z)%type.

Definition to_pnode (n : node) : pnode :=
  {| pkind := nkind n; parity := narity n; pdat := ndat n; pentries := nentries n;
     pcls := match ncustom n with Some r => Some (rcls r) | None => None end;
     pleaves := nleaves n; pnodes := nnodes n; porig := norig n |}.

Definition to_pickle (s : spec) : pstate := (map to_pnode (trav s), snil s, sns s).

Definition lookup_in (regs : list reg) (ns cls : Z) : option reg :=
  if Z.eqb ns 0 then find_reg cls 0 regs
  else match find_reg cls ns regs with
       | Some r => Some r
       | None => find_reg cls 0 regs
       end.

Definition from_pnode (regs : list reg) (ns : Z) (p : pnode) : res node :=
  let has_orig_kind := match pkind p with KdDict | KdDDict => true | _ => false end in
  (* original_keys present exactly for dict / defaultdict *)
  if negb (Bool.eqb has_orig_kind (match porig p with Some _ => true | None => false end))
  then Err RuntimeError
  else
    (* leaf, None, tuple, list carry no node data *)
    if match pkind p, pdat p with
       | (KdLeaf | KdNone | KdTuple | KdList), DNone => false
       | (KdLeaf | KdNone | KdTuple | KdList), _ => true
       | _, _ => false
       end then Err RuntimeError
    else
      match pkind p with
      | KdCustom =>
        match pcls p with
        | None => Err RuntimeError
        | Some cls =>
          match lookup_in regs ns cls with
          | None => Err RuntimeError          (* the type is not registered (any more) *)
          | Some r =>
            Ok {| nkind := KdCustom; narity := parity p; ndat := pdat p; nentries := pentries p;
                  ncustom := Some r; nleaves := pleaves p; nnodes := pnodes p; norig := porig p |}
          end
        end
      | k =>
        match pentries p, pcls p with
        | None, None =>
          Ok {| nkind := k; narity := parity p; ndat := pdat p; nentries := None; ncustom := None;
                nleaves := pleaves p; nnodes := pnodes p; norig := porig p |}
        | _, _ => Err RuntimeError
        end
      end.

Definition from_pickle (regs : list reg) (p : pstate) : res spec :=
  let '(pns, nl, ns) := p in
  do ns' <- mapM (from_pnode regs ns) pns ;;
  let s := {| trav := ns'; snil := nl; sns := ns |} in
  if sanity s then Ok s else Err InternalError.
