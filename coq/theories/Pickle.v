(* Pickle.v — src/treespec/serialization.cpp ToPickleable / FromPickleable: the state that is
   pickled, its validation on load, and the re-binding of custom nodes to the CURRENT registration of
   their type in the recorded namespace. *)
From OptreeModel Require Export Tree Flatten Unflatten.

Record pnode := {
  pkind : kind; parity : nat; pdat : ndata; pentries : option (list key);
  pcls : option Z;              (* the custom type, not the registration *)
  pleaves : nat; pnodes : nat; porig : option (list key)
}.

Definition pstate := (list pnode * bool * Z)%type.

Definition to_pnode (n : node) : pnode :=
  {| pkind := nkind n; parity := narity n; pdat := ndat n; pentries := nentries n;
     pcls := match ncustom n with Some r => Some (rcls r) | None => None end;
     pleaves := nleaves n; pnodes := nnodes n; porig := norig n |}.

Definition to_pickle (s : spec) : pstate := (map to_pnode (trav s), snil s, sns s).

Definition lookup_in (regs : list reg) (ns cls : Z) : option reg :=
  if Z.eqb ns 0 then find_reg cls 0 regs
  else match find_reg cls ns regs with
       | Some r => Some r
       | None => find_reg cls 0 regs
       end.

Definition from_pnode (regs : list reg) (ns : Z) (p : pnode) : res node :=
  let has_orig_kind := match pkind p with KdDict | KdDDict => true | _ => false end in
  (* original_keys present exactly for dict / defaultdict *)
  if negb (Bool.eqb has_orig_kind (match porig p with Some _ => true | None => false end))
  then Err RuntimeError
  else
    (* leaf, None, tuple, list carry no node data *)
    if match pkind p, pdat p with
       | (KdLeaf | KdNone | KdTuple | KdList), DNone => false
       | (KdLeaf | KdNone | KdTuple | KdList), _ => true
       | _, _ => false
       end then Err RuntimeError
    else
      match pkind p with
      | KdCustom =>
        match pcls p with
        | None => Err RuntimeError
        | Some cls =>
          match lookup_in regs ns cls with
          | None => Err RuntimeError          (* the type is not registered (any more) *)
          | Some r =>
            Ok {| nkind := KdCustom; narity := parity p; ndat := pdat p; nentries := pentries p;
                  ncustom := Some r; nleaves := pleaves p; nnodes := pnodes p; norig := porig p |}
          end
        end
      | k =>
        match pentries p, pcls p with
        | None, None =>
          Ok {| nkind := k; narity := parity p; ndat := pdat p; nentries := None; ncustom := None;
                nleaves := pleaves p; nnodes := pnodes p; norig := porig p |}
        | _, _ => Err RuntimeError
        end
      end.

(* ---------- validation of the loaded node array (FromPickleable, after fix F16) ---------- *)
(* kind-specific consistency of one node with its arity *)
Definition node_payload_ok (nil : bool) (n : node) : bool :=
  match nkind n with
  | KdLeaf => Nat.eqb (narity n) 0
  | KdNone => Nat.eqb (narity n) 0 && negb nil
  | KdDict | KdODict => match ndat n with DKeys ks => Nat.eqb (length ks) (narity n) | _ => false end
  | KdDDict => match ndat n with DDefault _ ks => Nat.eqb (length ks) (narity n) | _ => false end
  | KdCustom => match nentries n with Some es => Nat.eqb (length es) (narity n) | None => true end
  | _ => true
  end && match norig n with Some ks => Nat.eqb (length ks) (narity n) | None => true end.

Definition sum_fst (l : list (nat * nat)) : nat := fold_right (fun p a => fst p + a)%nat O l.
Definition sum_snd (l : list (nat * nat)) : nat := fold_right (fun p a => snd p + a)%nat O l.

(* replay of the post-order traversal with a stack of (num_leaves, num_nodes) per pending subtree *)
Fixpoint validate_go (nil : bool) (ns : list node) (stack : list (nat * nat)) : bool :=
  match ns with
  | [] => Nat.eqb (length stack) 1
  | n :: rest =>
    if Nat.ltb (length stack) (narity n) then false
    else
      let popped := firstn (narity n) stack in
      let nl := ((match nkind n with KdLeaf => 1 | _ => 0 end) + sum_fst popped)%nat in
      let nn := S (sum_snd popped) in
      if negb (Nat.eqb (nleaves n) nl && Nat.eqb (nnodes n) nn) then false
      else if negb (node_payload_ok nil n) then false
      else validate_go nil rest ((nl, nn) :: skipn (narity n) stack)
  end.

Definition validate (nil : bool) (ns : list node) : bool := validate_go nil ns [].

Definition from_pickle (regs : list reg) (p : pstate) : res spec :=
  let '(pns, nl, ns) := p in
  do ns' <- mapM (from_pnode regs ns) pns ;;
  let s := {| trav := ns'; snil := nl; sns := ns |} in
  if sanity s then (if validate nl ns' then Ok s else Err RuntimeError) else Err InternalError.
