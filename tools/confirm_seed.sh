#!/bin/bash
# confirm_seed.sh <PID> <k>: confirm a seeded change independently in a scratch worktree:
#   demo passes on the unmodified tree, fails with the patch; the patched tree builds and passes
#   the unedited test suite. Writes /tmp/seeds/<PID>/<k>/confirm.txt. Removes the worktree.
set -u
PID=$1; K=$2
S=/tmp/seeds/$PID/$K
WT=/tmp/cs-$PID-$K
OBJ=/tmp/cs-obj-$PID-$K
OUT=$S/confirm.txt
: > $OUT
git -C /repo worktree remove --force $WT >/dev/null 2>&1
rm -rf $WT $OBJ
git -C /repo worktree add --detach $WT HEAD >/dev/null 2>&1 || { echo "worktree failed" >> $OUT; exit 1; }
build() {
  mkdir -p $OBJ; rm -f $OBJ/*.o
  ls $WT/src/*.cpp $WT/src/treespec/*.cpp | xargs -P6 -I{} sh -c 'g++ -O1 -std=c++20 -fPIC -fvisibility=hidden -w -I'$WT'/include -I/venv/lib/python3.12/site-packages/torch/include -I/root/.pyenv/versions/3.12.1/include/python3.12 -c {} -o '$OBJ'/$(basename {} .cpp).o' || return 1
  g++ -shared $OBJ/*.o -o $WT/optree/_C.cpython-312-x86_64-linux-gnu.so
}
build || { echo "clean build failed" >> $OUT; }
(cd $WT && PYTHONPATH=$WT timeout 600 /venv/bin/python $S/demo.py > $S/demo_clean.log 2>&1); echo "demo_clean_rc=$?" >> $OUT
if git -C $WT apply $S/patch.diff 2>> $OUT; then echo "patch_applies=yes" >> $OUT; else echo "patch_applies=NO" >> $OUT; fi
if git -C $WT diff --stat | grep -q -E "src/|include/"; then build && echo "patched_build=ok" >> $OUT || echo "patched_build=FAILED" >> $OUT; else echo "patched_build=python-only" >> $OUT; fi
(cd $WT && PYTHONPATH=$WT timeout 600 /venv/bin/python $S/demo.py > $S/demo_patched.log 2>&1); echo "demo_patched_rc=$?" >> $OUT
(cd $WT && timeout 3000 /venv/bin/python -m pytest -q -p no:cacheprovider --timeout=900 tests > $S/suite.log 2>&1); echo "suite_rc=$?" >> $OUT
tail -1 $S/suite.log >> $OUT
git -C /repo worktree remove --force $WT >/dev/null 2>&1
rm -rf $WT $OBJ
echo done >> $OUT
