#!/bin/bash
# try_seed.sh <seed dir with patch.diff> <prop> [<prop>...]: apply the seeded change to /repo, run the
# given checks, revert. Prints one line per check.
S=$1; shift
cd /verif
git -C /repo apply $S/patch.diff || { echo "patch does not apply"; exit 2; }
for p in "$@"; do
  out=$(./check run $p 2>&1 | tail -3)
  echo "== $p on $(basename $(dirname $S))/$(basename $S): $(echo "$out" | tail -1)"
  echo "$out" | grep -E "^VIOLATION|KNOWN" | head -3
done
git -C /repo checkout -- .
git -C /repo status --short | head -3
