#!/bin/bash
# independent re-check of the compiled development with coqchk; prints the context summary (axioms etc.)
cd "$(dirname "$0")/../coq" || exit 1
timeout 3000 coqchk -silent -o $(grep "^-Q" _CoqProject | tr '\n' ' ') props/C*.vo 2>&1 | tail -14
