#!/bin/bash
# apply every harmless change to /repo in turn, run the checks of the properties anchored in the edited
# code (quick tier), revert; a VIOLATION here is a false alarm. /repo must be clean. Never commits to /repo.
cd /verif
[ -z "$(git -C /repo status --short)" ] || { echo "/repo is not clean"; exit 2; }
declare -A P=( [B1]="C01 C03 C16" [B2]="C12 C17" [B3]="C05" [B4]="C01 C15 C16" [B5]="C04 C19" [B6]="C08" [B7]="C07 C09" [B8]="C06 C11" )
OUT=/verif/seeded/benign/RESULTS.md
echo "# Harmless changes vs checks (quick tier, $(date -u +%F))" > $OUT
echo "" >> $OUT
echo "| change | check | verdict | last line |" >> $OUT
echo "|--------|-------|---------|-----------|" >> $OUT
for b in B1 B2 B3 B4 B5 B6 B7 B8; do
  git -C /repo apply /verif/seeded/benign/$b/patch.diff || { echo "| $b | - | patch does not apply | |" >> $OUT; continue; }
  for p in ${P[$b]}; do
    out=$(./check run $p 2>&1); rc=$?
    last=$(echo "$out" | tail -1 | sed 's/|/\//g')
    echo "| $b | $p | $([ $rc -eq 0 ] && echo quiet || echo "FALSE ALARM (rc=$rc)") | $last |" >> $OUT
    echo "$b $p rc=$rc $last"
    echo "$out" | grep -m2 "^VIOLATION"
  done
  git -C /repo checkout -- .
done
echo "" >> $OUT
echo "After the last change /repo was restored with git checkout; $(git -C /repo status --short | wc -l) modified files remain." >> $OUT
