#!/bin/bash
# developer helper: run one worker directly against the cached build of /repo's working tree
# usage: tools/runw.sh c15 [tier] [seed]
B=$(/venv/bin/python -c "
import importlib.machinery, importlib.util
l=importlib.machinery.SourceFileLoader('chk','/verif/check'); s=importlib.util.spec_from_loader('chk',l); m=importlib.util.module_from_spec(s); l.exec_module(m)
print(m.build_optree()[0])")
W=$1; T=${2:-quick}; S=${3:-1}
PYTHONPATH=$B:/verif PYTHONHASHSEED=0 timeout 3000 /venv/bin/python -m harness.props.$W $T $S /var/tmp/$W.json 2>&1 | tail -20
/venv/bin/python - "$W" <<'PY'
import json,sys
j=json.load(open('/var/tmp/%s.json'%sys.argv[1]))
print({k:j[k] for k in ('evaluations','programs','n_disagreements','n_failures','wall_s')})
print(j['distribution'])
seen=set()
for f in j['failures']:
    key=(f['what'],f['case'].split(' k=')[0])
    if key in seen: continue
    seen.add(key)
    print('FAIL',f['what'],'|',f['case'][:300],'|',f['detail'][:300])
for d in j['disagreements'][:5]: print('DIS',d)
if j.get('harness_error'): print(j['harness_error'])
PY
