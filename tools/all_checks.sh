#!/bin/bash
# run every registered check (quick tier by default) on /repo's current working tree; one line per check
cd "$(dirname "$0")/.."
TIER=${1:-quick}
for p in $(python3 -c "import json; print(' '.join(c['property_id'] for c in json.load(open('MANIFEST.json'))['checks']))"); do
  out=$(./check run $p --tier $TIER 2>&1); rc=$?
  echo "$(echo "$out" | tail -1) rc=$rc"
  echo "$out" | grep -E "^VIOLATION|^KNOWN" | head -3
done
