#!/usr/bin/env python3
"""Regenerate MANIFEST.json from the table below (kept here so that adding a property is one entry)."""
import json, os
ROOT = os.path.dirname(os.path.dirname(os.path.abspath(__file__)))
TB = ("Trusted: Coq 8.16.1 kernel (full .vo build, Print Assumptions per theorem: closed unless stated); "
      "ExtrOcamlBasic extraction + OCaml 4.13.1; hand-written driver.ml and Python harness (generator, realiser, "
      "abstractor, differ); the hand-written model itself, tied to the code only by the correspondence run; "
      "CPython 3.12.1 paths of the extension rebuilt with g++ -O1. ")
CHECKS = {
 'C01': dict(
   technique='Coq proof (stack-machine induction) + extracted-model correspondence + implementation oracle',
   text='Theorems C01_unflatten_flatten / C01_reflatten hold for every configuration and every well-formed tree of the model '
        '(no bound on size, depth, arity); C01_flatten_unflatten_replace: unflattening with ANY n leaf-typed replacement objects and flattening returns exactly those objects and the identical treespec (every configuration without a predicate); the correspondence run compares flatten, flatten_with_path, the leaf iterator and '
        'unflatten of the extracted model with the rebuilt implementation field by field on generated trees (all kinds, key mixes, '
        'construction histories, options); an oracle evaluates the round-trip laws directly on the implementation.',
   note=TB + 'Modelled, not verified: C++ reference counting, struct-sequence unnamed fields, keys outside the key universe (NaN, hash-equal cross-type keys).',
   design='§7 C01'),
 'C02': dict(
   technique='Coq proof (insertion sort is the unique sorted permutation under a strict total order on comparable keys) + extracted-model correspondence incl. exhaustive insertion permutations of small dicts',
   text='Theorems: the key sort always returns a permutation; for pairwise comparable keys it is sorted by < and independent of the insertion order, hence two dicts with the same items in different insertion orders flatten to the same leaves and to treespecs == cannot distinguish; '
        'when neither sort applies the keys stay in insertion order; OrderedDict is always visited in insertion order; a true predicate makes a leaf before any registry lookup; an unregistered class is a leaf; namespace registrations shadow global ones; None is a childless node unless none_is_leaf. '
        'The run compares flatten/with_path/iterator with the model on every insertion permutation of dicts with up to 4 (thorough: 5) keys over nine key-mix classes (sortable, mixed, stage-2, unsortable, with None, tuples) in both dict-order modes, plus random dict-heavy trees; oracles check insertion-order independence, the none_is_leaf law and predicate idempotence on the implementation.',
   note=TB + 'Insertion-order independence is proved for stage 1 (C02_sort_stage1_insertion_order_irrelevant) and for stage 2 (C02_sort_stage2_sorted, C02_sort_insertion_order_irrelevant, C02_dict_insertion_order_irrelevant_any: mixed types sorted by (type name, key)); the exhaustive permutation run ties the model order to the implementation. The ranking of type names is a model parameter checked against the real class names by the run. Keys outside the key universe are not modelled.',
   design='§7 C02'),
 'C03': dict(
   technique='Coq proof (induction on the depth budget, agenda lemma for the iterator) + extracted-model correspondence + all-pairs oracle on 8 entry points',
   text='Theorems: flatten_with_path succeeds exactly when flatten does with the identical leaves and treespec (both directions); the paths it returns are the treespec\'s own paths; '
        'draining the leaf iterator yields flatten\'s leaves; tree_is_leaf(x) iff flatten gives [x] with a leaf treespec; the unrestricted error-parity claim is refuted in the model '
        '(C03_error_parity_refuted) by the two-fault witness that is known finding K1. The run compares the three traversals and the treespec walkers with the model and checks all eight entry points '
        'against each other on valid, malformed and over-deep inputs.',
   note=TB + 'Reductions (tree_reduce/sum/max/min/all/any) and tree_flatten_with_accessor are checked on the implementation only (they are one-line compositions in ops.py). Known finding K1 is matched by structure (entries/children mismatch with a failing descendant) and outcome pattern (only tree_iter differs, with RuntimeError).',
   design='§7 C03'),
 'C04': dict(
   technique='Coq proof (path invariant carried through flatten-with-path by induction) + extracted-model correspondence of typed entries and of path application + accessor oracle',
   text='Theorems: for every tree whose custom nodes declare pairwise distinct entries and every configuration, the i-th path applied to the tree entry by entry returns the i-th leaf; those paths are the ones recomputed from the treespec; there are as many paths as leaves. '
        'The run compares paths, typed accessor entries (entry, entry class, parent node type, kind) and the result of applying every path with the model, and checks on the implementation: accessor(tree) is the i-th leaf object, .path, entry typing and field names, distinct and prefix-free paths, '
        'accessor ==/hash consistency (incl. a pool of accessors for the same positions obtained under different registrations), slicing/concatenation, and evaluation of the generated code for literal keys.',
   note=TB + 'Distinctness / prefix-freeness of paths is proved (C04_paths_prefix_free for everything flatten-with-path returns on trees whose custom nodes declare distinct entries; C04_treespec_paths_prefix_free for any treespec with distinct entries). PARTIAL: accessor equality/hash (they compare bytecode of the entry classes) and codify strings are checked on the implementation only. GetAttrEntry with non-string entries cannot be applied and is skipped.',
   design='§7 C04'),
 'C05': dict(
   technique='Coq proof (trace monad over the mapped function) + extracted-model correspondence of results and call traces + oracle on all map variants',
   text='Theorems: for every total f, tree_map calls f exactly on the rows (leaf_i(t), sub_i(rest_1), ...) once per leaf in flatten order and returns the treespec of t filled with f\'s values; '
        'a rest that is not a suffix stops the map before any call; the underscore variant returns the original tree; PyTreeSpec.traverse without functions is unflatten, and for ANY leaf and node functions (raising ones included) the engine\'s stack machine over the node array equals the tree recursion twalk: leaf function on the leaves in leaf order, node function exactly once per internal node, on the node rebuilt from its already processed children, after all of them (C05_traverse_is_tree_recursion). The run compares (cmd 24) traverse results and complete call traces for 5x5 function behaviours on 1.5 k trees, and result and full call trace (argument identities) with the model '
        'for 0-3 rests (true suffixes with differing dict kind/order/maxlen, one-node edits, leaves) and four function behaviours including raising at call k, and checks the with_path/with_accessor/underscore variants, identity copy, traverse and walk on the implementation.',
   note=TB + 'The with_path/with_accessor variants and walk (the raw-node form of traverse) are checked on the implementation only (against tree_map and the treespec paths); map(f∘g)=map(f)∘map(g) is not separately checked.',
   design='§7 C05'),
 'C06': dict(
   technique='Coq proof (lock-step decoding of two node arrays; counters determined by structure) + extracted-model correspondence + route-independence oracle',
   text='Theorems: == is exactly node-wise agreement of (kind, arity, registration, node data) with equal none_is_leaf and compatible namespaces; reflexive, symmetric, transitive within pairwise-compatible namespaces '
        '(refuted across \'a\', \'\', \'b\'); a == b implies the two treespecs feed the identical sequence of values to the hash (for all decodable arrays with consistent counters, in particular everything flatten produces); '
        'the same law is refuted for the variant that hashes the namespace (defect F1, fixed). The run compares ==, both directions, with the model on derived pairs and checks hash/set/dict-key behaviour and six construction routes on the implementation.',
   note=TB + 'Hash values themselves are not modelled: the theorem is about the sequence fed to HashCombine (a function of which the hash is), and the run checks hash equality patterns.',
   design='§7 C06'),
 'C07': dict(
   technique='Coq proof (order laws on structured treespecs) + three-way correspondence/oracle (flatten_up_to, is_prefix, prefix_errors) against the tree-level model',
   text='Theorems: TWO OF THE THREE DECIDERS AGREE — for any two trees flattened under one configuration (no predicate), flatten_up_to of the first treespec on the second tree succeeds exactly when the first treespec is_prefix of the second (C07_flatten_up_to_iff_is_prefix: all node kinds, permuted and mixed dict kinds, registered / unregistered custom classes, None as node or leaf; also for arbitrary treespecs of the configuration); the prefix relation on structured treespecs is transitive with no side condition (C07_prefix_trans), is_prefix is transitive whenever the outer namespaces are compatible and refuted otherwise (\'a\' <= \'\' <= \'b\'); every treespec flatten produces satisfies the side conditions of the order theorems (C07_flatten_gives_good_treespecs); THE PARTITION — on success every returned subtree flattens and the leaves of the returned subtrees together are a permutation of the tree\'s leaves (C07_flatten_up_to_partitions; a permutation because the treespec\'s dict nodes may list the keys in another order than the tree\'s own flatten visits them), and the i-th returned subtree is what the i-th path of the treespec resolves to in the tree (C07_flatten_up_to_by_paths, side conditions proved for flattened treespecs); flatten_up_to of a tree by its own treespec returns exactly its leaves (C07_flatten_up_to_self: FlattenUpTo meets flatten); is_prefix is reflexive and never strictly so on itself; a leaf is a prefix of everything; a < b iff a <= b and some leaf of a is a non-leaf of b; prefixes need equal none_is_leaf and compatible namespaces. '
        'The run compares is_prefix (both directions, strict and not) and flatten_up_to with the model on derived pairs (true suffixes, dict-kind/key-order/maxlen variations, one-edit near misses, unrelated) and checks on the implementation: three-way agreement with prefix_errors, only ValueError, the partition of leaves, subtree-at-path, converses, transitivity on chains.',
   note=TB + 'PARTIAL: antisymmetry up to dict equivalence and the agreement with the third decider, the Python prefix_errors, are NOT proved in Coq; they are decided by the differential run (tree-level model vs the C++ index walks incl. the sibling re-ordering block, and the Python prefix_errors).',
   design='§7 C07'),
 'C09': dict(
   technique='Coq proof (the join is the LEAST upper bound in the prefix order: upper bound and minimality, each by induction over treespecs with key-aligned dict children; node-level laws) + extracted-model correspondence of full result arrays and of the Python broadcast family + lattice-law oracle',
   text='Theorems: whenever broadcast_to_common_suffix succeeds, BOTH operands are prefixes of the result (C09_join_is_upper_bound, for all treespecs satisfying the side conditions that C09_flatten_gives_good_treespecs proves for everything flatten produces), and whenever the operands have ANY common upper bound u the broadcast succeeds and its result is a prefix of u (C09_join_is_least) — so it computes the least upper bound and fails only when there is none; a leaf is replaced by the other operand\'s subtree on either side; where both operands are internal nodes the result carries the first operand\'s kind, key order, custom path entries, registration and original keys; '
        'option mismatches raise ValueError; the result namespace is the documented merge. The run compares broadcast_to_common_suffix in both argument orders (entire node arrays incl. node_entries and original_keys), '
        'tree_broadcast_prefix, broadcast_prefix, tree_broadcast_common and broadcast_common with the model, and checks upper bound, order independence up to dict kind/order, idempotence, prefix-absorption, operands unchanged, the path-prefix law and tree_broadcast_map on the implementation.',
   note=TB + 'Least-upper-bound is proved at the level of structured treespecs (st_join / st_prefix); the treespec-level wrapper adds the none_is_leaf / namespace checks (C09_broadcast_option_errors, C09_broadcast_namespace). Two-pass sufficiency of the Python n-ary broadcast for n trees is checked by the oracle, not proved.',
   design='§7 C09'),
 'C10': dict(
   technique='Coq proof (list lemma on chunks/zip for all m, n) + extracted-model correspondence + oracle on the transpose_map family',
   text='Theorems: for all m, n > 0 and every list of m*n leaves, the value at (inner j, outer i) of the transposed grouping is the value at (outer i, inner j); the grouping has n rows of m; empty structures, none_is_leaf mismatch and incompatible namespaces raise ValueError and a wrong leaf count TypeError. '
        'The run compares tree_transpose and transposing back with the model on composed, edited and unrelated trees and checks the index law, involution and the tree_transpose_map family (given/inferred inner structure, with_path, with_accessor, varying inner shape rejected) on the implementation.',
   note=TB + 'tree_transpose only checks the leaf COUNT of its input (as the code does); the model is faithful to that.',
   design='§7 C10'),
 'C08': dict(
   technique='Coq proof (decode/encode of the post-order array, structural induction on treespecs) + extracted-model correspondence',
   text='Theorems: flatten always yields the encoding of a well-formed structured treespec (decode . encode = id); children counts sum to the parent; '
        'child/entry follow Python index semantics with IndexError outside [-n, n); the root is rebuilt from one_level + children; compose multiplies leaves and preserves '
        'well-formedness; transform(identity) is the identity and leaf replacement equals compose; ARRAY LEVEL: the engine\'s backwards index walk over the node array (Children / Child: skip whole subtrees by num_nodes) returns exactly the arrays of the children of the structured treespec for every well-formed treespec, without reaching any of its internal-error checks (C08_array_children); CONSTRUCTORS: MakeFromCollection (treespec_from_collection / treespec_tuple / _list / _dict / _ordereddict / _defaultdict / _deque / _namedtuple / _structseq) applied to the treespecs of the children of a collection returns the treespec of the collection itself (same node array and none_is_leaf, compatible namespace) and fails exactly when flattening the collection fails, with the same exception (C08_constructor_is_flatten); the engine\'s flatten is the post-order encoding of a tree-level flatten (C08_flatten_is_encoded_tree_flatten). The correspondence run compares (cmd 22) treespec_from_collection on 1.2 k one-level collections of all kinds whose children were flattened under their own none_is_leaf / namespace (results and the three error kinds), every inspection method (counts, kind, type, '
        'paths, accessors, children, child(i) and entry(i) for all i in [-n-1, n], entries, one_level) and compose/transform/broadcast results (full node arrays) with the implementation.',
   note=TB + 'The treespec algorithms are modelled at tree level (stree); the array layer is tied in by decode/encode theorems, by the refinement proof of the Children() walk (the step every other reverse walk repeats) and by comparing full __getstate__ arrays; the other C++ index walks (Paths, IsPrefix with its sibling re-ordering, Broadcast, FlattenUpTo) have no array-level refinement proof. treespec_* constructors and repr text are compared only through the harness.',
   design='§7 C08'),
 'C11': dict(
   technique='Coq proof (per-node conditions established by induction over flatten; load = inverse of dump under those conditions) + extracted-model correspondence with registry changes between dump and load',
   text='Theorems: for every treespec flatten produces, loading its pickled state under the same registry returns the identical treespec (all node fields incl. path entries, registration, counters and original keys; none_is_leaf; namespace); '
        'a custom type not registered in the recorded namespace nor globally makes loading raise; THE VALIDATION ON LOAD (fix F16) is SOUND — every accepted node array decodes to a well-formed structured treespec with consistent payloads, the condition under which the engine\'s unchecked index walks stay in bounds — and COMPLETE — the array of every such treespec, in particular of every flattened tree, is accepted, so no valid pickle is rejected (C11_validate_sound / _complete / C11_flatten_validates). The run dumps with protocols 2..HIGHEST, copy and deepcopy and loads under the same, a missing, a re-made or a moved registration in the same process (1500 cases) and in a freshly spawned interpreter, '
        'comparing the loaded node array, == with the original and with a fresh flatten, and the unflattened tree with the model; it also (cmd 23) loads 1.5 k forged node arrays (edits of arity, num_leaves, num_nodes, key lists, kinds, dropped / duplicated nodes) through __setstate__ in forked children and compares accepted / RuntimeError / InternalError with the model\'s from_pickle; the oracle checks equality, hash, repr, paths, accessors, entries, children, namespace and exact unflatten for the same-registry case.',
   note=TB + 'The byte-level pickle encoding is Python\'s and is not modelled. Known finding K2: protocols 0 and 1 raise TypeError in dumps (pybind11), although the property quantifies over all protocols.',
   design='§7 C11'),
 'C12': dict(
   technique='Coq proof (invariant by induction over operation histories; failed step = identity) + exhaustive-history correspondence in forked processes',
   text='Theorems: a call that raises for any reason leaves the registry exactly as it was; after ANY history the engine registry and the Python registry agree, no (type, namespace) is registered twice and no built-in is registered; an operation in one namespace never changes what is registered in another; '
        'namespace registrations shadow global ones; the Python-visible lookup equals what flattening uses; double registration, unregistering something absent and (un)registering built-ins fail; register then unregister restores both registries. '
        'The run executes every history of length 2 (thorough: 3) over {plain, namedtuple subclass, struct sequence, built-in, non-class} x {global, \'a\', \'b\', \'\', non-string} x {register, unregister} (+ bad entry type) x warnings {ignored, errors}, plus sampled longer ones, each in a forked child, '
        'and compares outcome and the full observable state after every step (flatten of probe instances in every namespace x both none_is_leaf, get(cls, ns), get(namespace=ns)[cls]) with the model.',
   note=TB + 'register_pytree_node_class and the dataclass registration path go through the same register call and are not separately enumerated. Registration identity is observed through a per-registration tag in the flatten function\'s metadata.',
   design='§7 C12'),
 'C13': dict(
   technique='Coq proof (induction over program trees of nested with-blocks, normal and raising exits) + exhaustive small-program correspondence',
   text='Theorems: for every well-nested program (any depth, any interleaving of namespaces, normal or raising exits) the mode of every namespace after a block equals the mode before it; inside a block only the named namespace changes; flattening in namespace m is insertion-ordered iff m or the global namespace has the flag; dict/defaultdict follow the mode and OrderedDict never does. '
        'The run enumerates all programs of depth <= 2 with <= 2 statements per block and all depth-3 chains over {global, \'a\', \'b\'} x {True, False} x {normal, raise} (20 641 programs), plus random deeper ones, and compares each namespace\'s own flag and its effective behaviour (leaf order of a probe dict) at every observation point and at the end with the model; '
        'an oracle checks every traversal entry point, treespec_dict, round trip and register_pytree_node.get(dict) against the current mode.',
   note=TB + 'The mode switch is process-wide and documented as not thread-safe; concurrency is out of scope here (C17).',
   design='§7 C13'),
 'C14': dict(
   technique='Coq proof (heap of mutable list objects: invariant over all user programs; completeness of the GC traversal, shortcuts refuted on reachable treespecs) + extracted-model correspondence (owned references vs __getstate__/gc.get_referents; alias programs) + identity-level before/after snapshots, history and weakref oracles on the rebuilt implementation',
   text='Theorems: after flatten, for every heap, source key list and EVERY user program (any sequence of in-place mutations of the source and of every list entries() ever returned, interleaved with further entries() calls) the treespec says what it said when created, and that is the source\'s keys at flatten time (sorted, and in insertion order); keeping the caller\'s list or handing out the treespec\'s own list is refuted; '
        'tp_traverse reports exactly the references every node owns for every treespec, and the two plausible shortcuts (skip childless nodes; choose fields by node kind) are refuted on treespecs that flatten produces. '
        'The run compares per node the owned-reference pattern with __getstate__ and requires every payload to be among gc.get_referents(treespec); compares alias programs on real dicts; and checks on the implementation: operands identical (identity-level snapshot) before/after ~190 API operations; 15 kinds of handed-out containers are fresh and their mutation changes neither treespec nor tree; '
        'random histories of (mutate source containers, mutate handed-out lists, unregister, re-register with other functions, delete tree / leaves, gc.collect, pickle) with the treespec (state, repr, paths, entries, accessors, children, hash, unflatten) re-observed after each event; leaves die once tree and leaf list are dropped, for 15 treespec-producing operations; reference cycles through 13 kinds of payload x 3 construction routes are collected.',
   note=TB + 'PARTIAL: the heap model covers the key lists of one dict node (the mechanism that aliasing defects F2/F12 were about); reference counting and the cycle collector are CPython\'s and are observed, not modelled. __getstate__ deliberately exposes the internal lists (pickle protocol) and is excluded from the freshness claim. An exhausted PyTreeIter keeps its root (not a treespec; outside the property).',
   design='§7 C14'),
 'C15': dict(
   technique='Coq proof (fault-injected flatten: dichotomy by induction on the depth budget; no-internal-error; guard-set restoration; map fault) + extracted-model correspondence at sampled fault positions + exhaustive per-callback fault enumeration over the public API on the rebuilt implementation',
   text='Theorems: for every configuration, tree, depth budget and k, a fault at the k-th callback invocation of flatten (is_leaf calls and custom flatten calls in engine order) yields exactly the injected exception or, when fewer than k callbacks are made, exactly the fault-free result; the instrumented traversal without a fault is the flatten of the other properties; '
        'flatten on a well-formed object never fails with an internal error (only RecursionError, the documented RuntimeError, the user\'s exception); a mapped function raising at call k+1 gives exactly that exception after k+1 calls; the in-progress marker of hash/repr is removed on success and on failure for every body (and the variant without the removal is refuted); '
        'only TypeError makes the key sort fall back; a failed (un)registration leaves the registry unchanged. The run compares cmd 14 (fault at k) for flatten / flatten_with_path / tree_iter with the model and enumerates, for ~190 operation x tree scenarios of the public API, a fault at EVERY callback invocation of a fault-free run '
        '(is_leaf, custom flatten/unflatten, mapped/reduce/visitor functions, key __hash__/__eq__/__lt__/__repr__/__reduce__, metadata __eq__/__repr__): identity of the propagated exception, operands/registry/mode unchanged at identity level, reference counts restored, the repeated call equal to a fault-free one.',
   note=TB + 'PARTIAL by nature: reference counts, the C++ exception paths and CPython behaviour are observed on the implementation (fault enumeration is exhaustive per scenario up to 40 (thorough: 400) positions, the scenario list is finite); the Coq theorems cover flatten, tree_map and the guard protocol. '
        'Keys whose __hash__ raises inside an OrderedDict are excluded: CPython\'s own OrderedDict.values() turns that into KeyError before optree runs.',
   design='§7 C15'),
 'C16': dict(
   technique='Coq proof (exact depth threshold of flatten by induction on the budget; flatten-with-path and the agenda iterator reduced to it; mutation scripts by induction) + extracted-model correspondence (depth chains, every mutation script up to a size bound) + forked-child crash oracle over the mutation matrix, argument confusion and forged states; ASan/UBSan build in the thorough tier',
   text='Theorems: for every configuration and every well-formed tree whose visited custom nodes behave, with d the number of nested visits, either d <= MAX_RECURSION_DEPTH+1 and flatten, flatten-with-path and the leaf iterator all succeed with the same leaves and treespec, or all three raise RecursionError (C16_same_threshold; no bound on size or depth); '
        'chains of n one-child containers around a leaf or a childless node work iff n <= MAX; on clean trees flatten-with-path can fail in no other way; for EVERY script of mutations and every list (dict) the checked loop returns exactly the captured number of children or IndexError (KeyError), and the unchecked variant is refuted. '
        'The run compares (cmd 17, cmd 1) the depth predicate and all three traversals with the model on chains of depth MAX-1..MAX+2 for 9 node kinds x 8 kinds of bottom (leaf, childless containers, None, childless/unregistered custom, predicate-accepted), checks 14 entry points for the same threshold and 18 operations on trees at the limit; '
        'compares (cmd 16) all 5^n mutation scripts for n <= 4 (thorough 5) on lists and dicts under three recursive traversals; and runs in forked children: self-referential containers and never-ending custom flattens (RecursionError, no hang), a 3332-cell (container x callback x position x mutation x traversal) matrix, out-of-range child/entry/unflatten arguments, forged pickle states followed by 17 operations, and every public function of optree, optree._C and PyTreeSpec with random argument tuples from a pool of 48 confusing objects. A child killed by a signal or by the watchdog is the violation and its input the replay.',
   note=TB + 'PARTIAL by nature: memory safety is observed (process status, ASan/UBSan reports in the thorough tier), not proved; the theorems cover the depth accounting and the bounds discipline of the list/dict loops. Cyclic structures are not objects of the inductive model: the theorem covers their unrollings (the traversal never looks deeper than MAX+2). '
        'Found and fixed by this check: F16 (forged pickle states crashed the process). prefix_errors is pure Python recursion and is not required to raise at the same depth.',
   design='§7 C16'),
 'C17': dict(
   technique='Coq proof (GIL + mutex state machine: invariant and progress over all schedules; multiset conservation for the shared iterator) + translator (lock scopes extracted from the C++ sources on every run, decided by the extracted Conc.wf) + cooperative-scheduler, iterator, registration and preemptive-soak oracles in forked children with a kernel watchdog',
   text='Theorems: for any number of threads, any thread programs that obey the lock discipline (no Python code while an engine mutex is held; every mutex released) and EVERY schedule (every choice of GIL holder at every callback and thread exit) no reachable state is a deadlock; a callback under a held mutex deadlocks under some schedule (refuted variant); '
        'for any number of consumers and every interleaving of the shared leaf iterator\'s take / hand-out steps, delivered + held + remaining is a permutation of the initial agenda, hence each leaf is delivered at most once and none is lost, and the pop-after-callback variant delivers a leaf twice; a second registration of a registered (type, namespace) fails in every sequence of registry steps. '
        'The run re-extracts all 27 engine-mutex scopes (and the functions called under the registry lock) from the C++ sources with a fail-closed call classifier and evaluates Conc.wf on each; parks a thread inside each of 21 Python-level callbacks the engine reaches (is_leaf, custom flatten/unflatten, mapped function, key __lt__/__hash__/__eq__/__repr__/__reduce__, metadata __eq__/__repr__, traverse visitors, metaclass attribute hooks during classification at flatten and at registration, warning hook) while a second thread runs each of 20 operations to completion (420 schedules), comparing both results with solo runs; '
        'parks one consumer of a shared iterator at each of its positions while another drains it, plus preemptive consumers; overlaps same-key registrations inside the classification hook and across 8 threads; overlaps a flatten with unregister / re-register; and soaks 8 (thorough 16) threads at a 1e-6 s switch interval against solo results while a thread registers and unregisters unrelated types.',
   note=TB + 'PARTIAL by nature: the theorems are about the discipline and the iterator protocol; that the code follows them is decided by the translator (trusted: harness/lockscan.py, its allow-list of calls that cannot run Python code, the exemption of the atexit Clear()) and by the schedules the oracles enumerate (callback granularity, 2 threads; preemptive runs are sampling). Only the GIL build is covered (#ifdef Py_GIL_DISABLED code is stripped). The dict-order mode switch is excluded by the property.',
   design='§7 C17'),
 'C18': dict(
   technique='Coq proof (recognisers as functions of class traits, equal on every trait vector; cache invariant over all histories with address reuse) + model correspondence on a generated class universe + twin-vs-twin oracle',
   text='Theorems: the repaired Python namedtuple recogniser equals the engine\'s on every trait vector (refuted for the unchanged twin, defect F6); the struct-sequence recognisers agree whenever the n_* counters are not instances of a proper int subclass, and on every class definable in Python; '
        'for every history of class creations, deaths with address reuse and queries, at every capacity, a cache query returns the classification of the class living at that address now; a doubly failed sort leaves insertion order. '
        'The run measures the trait vector of ~700 generated classes (every trait toggled, non-classes, real struct sequences) and compares the engine answer and the Python-twin answer each with the model; compares engine and twin for recognition, field listing, sort order of all permutations of half-way failing key sets plus random key lists, one-level flattening of 600 nodes (children, metadata, entries, kind, type, entry type, unflatten); and runs 5000 create/free/query rounds with address reuse by a class of the other kind (reuse observed in every round).',
   note=TB + 'Cache model assumptions: the weak-reference callback runs before the address is reused (CPython contract) and traits do not change while a class is alive. The one-level unflatten function for dict/defaultdict rebuilds keys in sorted order (the one-level metadata carries no original key order), so that result is compared as a mapping.',
   design='§7 C18'),
 'C19': dict(
   technique='Coq proof (field partition and keyword-argument reconstruction for all layouts; standard dataclass behaviour as a Section parameter) + model correspondence of the partition + layout-enumeration oracle against the standard library',
   text='Theorems: children are the pytree_node fields in declaration order; every init field is a child or metadata and never both, non-init fields are neither; a non-init pytree-node field is rejected; unflatten(flatten(x)) = x for every layout and every instance the class can produce (non-init fields recomputed by __post_init__); '
        'an optree partial over a partial is not merged (whereas functools.partial merges). The run enumerates all layouts of <= 2 fields and samples 3000 of 3 (thorough: 4) over (init, pytree_node, default/default_factory, kw_only) x {slots, frozen, kw_only, eq=False} x {decorator, make_dataclass}, '
        'compares the children/metadata partition with the model and checks on the implementation: leaves, metadata, entries, accessors, namespace isolation, round trip with __post_init__ count, tree_map, field-by-field equality with what dataclasses.dataclass produces, frozen, double decoration, empty namespace; and 200 nested optree/functools partials (no merging, (args, keywords) in every namespace, same function, mapped arguments, keyword precedence).',
   note=TB + 'The standard dataclasses / functools.partial internals are not modelled: the round-trip theorem takes the constructor behaviour as the hypothesis `consistent`, and "otherwise the class dataclasses.dataclass would produce" is compared against the standard library. Inheritance layouts are not enumerated.',
   design='§7 C19'),
 'C20': dict(
   technique='Coq proof (split/concat list lemmas for all chunk lists incl. zero-size chunks; ravel/unravel inverse laws parametric in promotion and casts) + model correspondence of the bookkeeping + bit-exact oracle on numpy, jax, torch',
   text='Theorems: splitting a concatenation at the cumulative sizes returns the chunks (zero-size included); index-based (numpy/jax) and size-based (torch) splitting agree; concat(split v) = v; unravel(ravel(leaves)) = leaves with the original shapes, dtypes and values, for a single dtype unconditionally and for mixed dtypes exactly under the cast round-trip hypothesis the property states; '
        'wrong length is always rejected, wrong dtype exactly when dtypes were mixed; an empty tree ravels to the empty vector. The run compares flat data, promoted dtype, and both unravel results with the model on each backend over a chain of dtypes (checked exhaustively to promote to the maximum) and checks bit-exactly: concatenation in leaf order, unravel(ravel(t)) = t incl. structure, ravel(unravel(v)) = v, rejections.',
   note=TB + 'Backend numerics (actual casts, the full promotion lattice beyond the chain) are parameters of the theorems, not modelled. The structure part of the law is C01.',
   design='§7 C20'),
}
PLANNED = {}
def main():
    props = [json.loads(l) for l in open(os.path.join(ROOT, 'properties.jsonl'))]
    checks = []
    for pid, c in sorted(CHECKS.items()):
        checks.append({
            'property_id': pid,
            'quick_cmd': f'./check run {pid} --tier quick',
            'thorough_cmd': f'./check run {pid} --tier thorough',
            'evidence_file': f'/verif/evidence/{pid}.json',
            'replay_cmd_template': './check replay {path}',
            'engine': 'coq-model',
            'level_claimed': {'category': c.get('category', 'proof'), 'text': c['text'], 'design_ref': c['design']},
            'level_note': c['note'],
            'technique': c['technique'],
        })
    na = [{'property_id': p['id'], 'reason': PLANNED.get(p['id'], 'check not built yet in this session; the plan is DESIGN.md §7 (machine-checked proof is applicable, nothing is claimed until the check exists)')}
          for p in props if p['id'] not in CHECKS]
    m = {
     'version': 1,
     'setup_cmd': 'cd /verif && ./setup.sh',
     'hooks': {'guard': 'OPTREE_VERIF',
               'enable': 'no hooks are needed: checks observe the public API and PyTreeSpec.__getstate__(); OPTREE_VERIF=1 would only add -DOPTREE_VERIF=1 to the rebuild',
               'baseline_off_cmd': 'cd /repo && /venv/bin/python -m pytest -ra -q -p no:cacheprovider --timeout=900 --continue-on-collection-errors',
               'source_commits': [], 'add_only': True},
     'engines': [{'name': 'coq-model', 'path': 'coq/', 'serves_properties': sorted(CHECKS),
                  'kind_free_text': 'hand-written Gallina model of optree; theorems in coq/props; extracted to OCaml and compared with the implementation rebuilt from /repo on every run'}],
     'checks': checks,
     'not_applicable': na,
     'notes': 'See DESIGN.md. Every check rebuilds the extension from /repo working tree (cached by content hash under /var/tmp/optree-verif-cache, rebuilt when absent).',
    }
    json.dump(m, open(os.path.join(ROOT, 'MANIFEST.json'), 'w'), indent=1)
main()
