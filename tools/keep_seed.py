#!/usr/bin/env python3
"""keep_seed.py <PID> <k> <caught_by comma list> <free text: what it needs>  — copy a confirmed seed into /verif/seeded/"""
import json, os, shutil, sys
pid, k, caught, needs = sys.argv[1], sys.argv[2], sys.argv[3], sys.argv[4]
src = f'/tmp/seeds/{pid}/{k}'
dst = f'/verif/seeded/{pid}-{k}'
os.makedirs(dst, exist_ok=True)
for f in ('patch.diff', 'demo.py', 'notes.md'):
    if os.path.exists(os.path.join(src, f)):
        shutil.copy(os.path.join(src, f), dst)
conf = open(os.path.join(src, 'confirm.txt')).read().split('\n')
meta = {
    'id': f'{pid}-{k}', 'property': pid, 'origin': 'independent sub-agent given only the property text and a scratch worktree',
    'needs_to_manifest': needs,
    'confirmed': {'how': 'tools/confirm_seed.sh in a scratch worktree of /repo HEAD: demo on clean tree, patch applies, rebuild, demo on patched tree, full unedited test suite',
                  'result': [l for l in conf if l]},
    'caught_by': [c for c in caught.split(',') if c],
    'commands': [f'git -C /repo apply /verif/seeded/{pid}-{k}/patch.diff', f'./check run {pid}', 'git -C /repo checkout -- .'],
}
json.dump(meta, open(os.path.join(dst, 'meta.json'), 'w'), indent=1)
print('kept', dst)
