#!/bin/bash
# apply every kept seeded change to /repo in turn, run the check of its property (quick tier), revert;
# writes /verif/seeded/RESULTS.md. /repo must be clean. Never commits anything to /repo.
cd /verif
[ -z "$(git -C /repo status --short)" ] || { echo "/repo is not clean"; exit 2; }
OUT=/verif/seeded/RESULTS.md
echo "# Seeded changes vs checks (quick tier, $(date -u +%F))" > $OUT
echo "" >> $OUT
echo "| seed | property | check run | verdict | first violation line |" >> $OUT
echo "|------|----------|-----------|---------|----------------------|" >> $OUT
for d in $(ls -d seeded/C*-* | sort -V); do
  id=$(basename $d); prop=${id%%-*}
  if ! git -C /repo apply /verif/$d/patch.diff 2>/dev/null; then echo "| $id | $prop | - | patch does not apply | |" >> $OUT; continue; fi
  out=$(./check run $prop 2>&1); rc=$?
  git -C /repo checkout -- . ; git -C /repo clean -fdq -e '*.so' >/dev/null 2>&1
  last=$(echo "$out" | tail -1 | sed 's/|/\//g')
  viol=$(echo "$out" | grep -m1 "^VIOLATION" | sed 's/|/\//g')
  echo "| $id | $prop | ./check run $prop | $([ $rc -ne 0 ] && echo CAUGHT || echo MISSED) (rc=$rc) | $viol |" >> $OUT
  echo "$id rc=$rc $last"
done
echo "" >> $OUT
echo "After the last seed /repo was restored with git checkout; $(git -C /repo status --short | wc -l) modified files remain." >> $OUT
