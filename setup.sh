#!/bin/bash
# setup_cmd: build the Coq development (full .vo), extract the model, compile the OCaml driver,
# run the hygiene scan. Offline; everything from files on disk.
set -uo pipefail
cd "$(dirname "$0")/coq"
coq_makefile -f _CoqProject -o Makefile > /dev/null 2>&1
timeout 3400 make -j16 2>&1 | grep -v "^WARNING conda" > build.log
rc=${PIPESTATUS[0]}
tail -5 build.log
[ $rc -eq 0 ] || { echo "coq build failed"; exit 1; }
timeout 600 make -f Makefile.extract 2>&1 | tail -3
[ -x extract/driver ] || { echo "driver build failed"; exit 1; }
# hygiene: nothing admitted, no axioms declared, no checks disabled (comments stripped)
bad=$(python3 - <<'PY'
import re,glob
bad=[]
for f in glob.glob('theories/*.v')+glob.glob('proofs/*.v')+glob.glob('props/*.v')+glob.glob('extract/*.v'):
    s=re.sub(r'\(\*.*?\*\)','',open(f).read(),flags=re.S)
    for tok in ['Admitted','admit','Axiom','Parameter','Conjecture','Unset Guard','bypass_check','type-in-type','impredicative-set','Admit Obligations','Hypothesis','Variable ']:
        for m in re.finditer(r'(?<![A-Za-z_])'+re.escape(tok)+r'(?![A-Za-z_])',s):
            # Variable/Hypothesis are allowed only inside a Section
            if tok.strip() in ('Hypothesis','Variable'):
                pre=s[:m.start()]
                if pre.count('Section ')>pre.count('\nEnd '): continue
            bad.append(f'{f}: {tok}')
print('\n'.join(bad))
PY
)
if [ -n "$bad" ]; then echo "hygiene scan failed:"; echo "$bad"; exit 1; fi
echo "setup ok"
