"""Realiser and abstractor: abstract objects (S-expression tuples, see coq/theories/Wire.v) <-> real
Python objects, for the optree build under test.  Nothing here uses == on trees: the abstractor maps
a Python object to the abstract type by exact type, key order, maxlen, default factory, class and
leaf identity."""
import collections
import os
import sys
import time
import grp
import pwd
import random
from collections import OrderedDict, defaultdict, deque

import optree

GLOBAL = optree.registry.__GLOBAL_NAMESPACE
NS_NAMES = {0: '', 1: 'a', 2: 'b', 3: 'unk', 4: 'c'}
NS_CODES = {v: k for k, v in NS_NAMES.items()}


def ns_reg(code):
    """namespace argument for register/unregister/dict_insertion_ordered"""
    return GLOBAL if code == 0 else NS_NAMES[code]


# ---------------------------------------------------------------- errors
class UserExc(Exception):
    def __init__(self, ident):
        super().__init__(ident)
        self.ident = ident


def err_code(e):
    if isinstance(e, UserExc):
        return (1, 10, e.ident)
    if isinstance(e, Warning):
        return (1, 11)
    if isinstance(e, optree._C.InternalError):
        return (1, 7)
    if isinstance(e, RecursionError):
        return (1, 4)
    if isinstance(e, ValueError):
        return (1, 1)
    if isinstance(e, TypeError):
        return (1, 2)
    if isinstance(e, IndexError):
        return (1, 5)
    if isinstance(e, KeyError):
        return (1, 6)
    if isinstance(e, RuntimeError):
        return (1, 3)
    return (1, 99, 0)


def attempt(f):
    """(0 value) or the error code"""
    try:
        return (0, f())
    except BaseException as e:  # noqa: BLE001 — classify everything, KeyboardInterrupt re-raised
        if isinstance(e, (KeyboardInterrupt, SystemExit)):
            raise
        return err_code(e)


# ---------------------------------------------------------------- keys
class _KBase:
    __slots__ = ('v',)

    def __init__(self, v):
        self.v = v

    def __hash__(self):
        return hash((type(self).__name__, self.v))

    def __eq__(self, other):
        return type(other) is type(self) and other.v == self.v

    def __repr__(self):
        return f'{type(self).__qualname__}({self.v})'


def _mk_key_classes():
    ords, uns = {}, {}
    for c in range(10):
        def __lt__(self, other):
            if type(other) is not type(self):
                return NotImplemented
            return self.v < other.v
        o = type(f'K{c}o', (_KBase,), {'__slots__': (), '__lt__': __lt__, '__module__': 'zzv',
                                        '__hash__': _KBase.__hash__})
        o.__qualname__ = f'K{c}o'
        u = type(f'K{c}u', (_KBase,), {'__slots__': (), '__module__': 'zzv',
                                        '__hash__': _KBase.__hash__})
        u.__qualname__ = f'K{c}u'
        ords[c], uns[c] = o, u
    return ords, uns


KORD, KUN = _mk_key_classes()
# make the key classes importable as zzv.K<c>o / zzv.K<c>u (pickling of treespecs)
import types as _types
_zzv = _types.ModuleType('zzv')
for _c in list(KORD.values()) + list(KUN.values()):
    setattr(_zzv, _c.__name__, _c)
sys.modules['zzv'] = _zzv
_KEY_CACHE = {}


def real_key(k):
    """abstract key -> Python key object (cached: one object per abstract key)"""
    if k in _KEY_CACHE:
        return _KEY_CACHE[k]
    t = k[0]
    if t == 0:
        r = k[1]
    elif t == 1:
        r = k[1] + 0.5
    elif t == 2:
        r = ''.join(chr(c) for c in k[1:])
    elif t == 3:
        r = None
    elif t == 4:
        r = tuple(k[1:])
    elif t == 5:
        r = complex(k[1], 1)
    elif t == 6:
        r = KORD[k[1]](k[2])
    elif t == 7:
        r = KUN[k[1]](k[2])
    else:
        raise ValueError(k)
    _KEY_CACHE[k] = r
    return r


def abs_key(x):
    if x is None:
        return (3,)
    t = type(x)
    if t is int:
        return (0, x)
    if t is float:
        return (1, int(x - 0.5))
    if t is str:
        return (2, *[ord(c) for c in x])
    if t is tuple:
        return (4, *x)
    if t is complex:
        return (5, int(x.real))
    for c, cls in KORD.items():
        if t is cls:
            return (6, c, x.v)
    for c, cls in KUN.items():
        if t is cls:
            return (7, c, x.v)
    return (99, 0)


# ---------------------------------------------------------------- leaves
class Opaque:
    __slots__ = ('ident', '__weakref__')

    def __init__(self, ident):
        self.ident = ident

    def __repr__(self):
        return f'L{self.ident}'


class MyList(list):
    pass


class MyDict(dict):
    pass


class MyTuple(tuple):
    pass


class MyODict(OrderedDict):
    pass


class MyDeque(deque):
    pass


def real_leaf(ident):
    m = ident % 9
    if m == 0:
        return Opaque(ident)
    if m == 1:
        return 1000 + ident
    if m == 2:
        return f's{ident}'
    if m == 3:
        return ident + 0.25
    if m == 4:
        return MyList([ident])
    if m == 5:
        return MyDict({'v': ident})
    if m == 6:
        return {ident}
    if m == 7:
        return MyTuple((ident,))
    return MyODict([(ident, ident)])


def abs_leaf(x):
    t = type(x)
    if t is Opaque:
        return (0, x.ident)
    if t is int:
        return (0, x - 1000)
    if t is str and x.startswith('s'):
        return (0, int(x[1:]))
    if t is float:
        return (0, int(x - 0.25))
    if t is MyList:
        return (0, x[0])
    if t is MyDict:
        return (0, x['v'])
    if t is set:
        return (0, next(iter(x)))
    if t is MyTuple:
        return (0, x[0])
    if t is MyODict:
        return (0, next(iter(x)))
    return None


# ---------------------------------------------------------------- node classes
_NT = {}


def nt_class(cls, n):
    """namedtuple class number cls with n fields; odd numbers are subclasses of a namedtuple class"""
    if (cls, n) not in _NT:
        if cls % 2 == 1:
            # odd numbers: a strict subclass (same fields) of the namedtuple class numbered cls - 1;
            # numbers 3 mod 4 with a constructor of their own that takes the values positionally only
            # (a validating / forwarding __new__: the field names are not keyword parameters)
            ns = {'__slots__': ()}
            if cls % 4 == 3:
                parent = nt_class(cls - 1, n)
                ns['__new__'] = lambda c, *coords, _p=parent: _p.__new__(c, *coords)
            base = type(f'NTS{cls}_{n}', (nt_class(cls - 1, n),), ns)
        else:
            base = collections.namedtuple(f'NT{cls}_{n}', [f'f{i}' for i in range(n)])
        base._verif = (cls, n)
        base.__module__ = __name__
        base.__qualname__ = base.__name__
        globals()[base.__name__] = base          # importable: pickling of treespecs
        _NT[(cls, n)] = base
    return _NT[(cls, n)]


STRUCTSEQ = [os.terminal_size, os.times_result, grp.struct_group, os.uname_result, time.struct_time,
             pwd.struct_passwd]
STRUCTSEQ_ARITY = [t.n_sequence_fields for t in STRUCTSEQ]

FACTORIES = [None, int, list, dict, str]


class CustBase:
    def __init__(self, children, meta, eb):
        self.children = children
        self.meta = meta
        self.eb = eb

    def __repr__(self):
        return f'{type(self).__name__}({self.children!r}, {self.meta}, {self.eb})'

    def _entries(self):
        if self.eb[0] == 2:
            return [real_key(k) for k in self.eb[1:]]
        return list(range(len(self.children)))

    def __getitem__(self, entry):
        # children are addressed by their declared entry (first occurrence), else by position
        es = self._entries()
        for i, e in enumerate(es):
            if type(e) is type(entry) and e == entry:
                return self.children[i]
        raise KeyError(entry)

    def __getattr__(self, name):
        if name in ('children', 'meta', 'eb'):
            raise AttributeError(name)
        try:
            return self[name]
        except KeyError:
            raise AttributeError(name) from None


NCUST = 6
CUST = [type(f'Cust{i}', (CustBase,), {}) for i in range(NCUST)]
for _c in CUST:
    globals()[_c.__name__] = _c      # importable: pickling of treespecs


HOOK = None      # fault injection (property C15): called with ('flatten'|'unflatten', object)


def cust_flatten(x):
    if HOOK is not None:
        HOOK('flatten', x)
    eb = x.eb
    md = (x.meta, eb)
    t = eb[0]
    # class number decides what kind of iterable the children come in
    ci = CUST.index(type(x))
    ch = x.children if ci % 3 == 0 else (tuple(x.children) if ci % 3 == 1 else iter(x.children))
    if t == 0:
        return ch, md
    if t == 1:
        return ch, md, None
    if t == 2:
        return ch, md, tuple(real_key(k) for k in eb[1:])
    if t == 3:
        return tuple([ch, md, None, None, None][: eb[1]]) if eb[1] <= 5 else (ch,) * eb[1]
    if t == 4:
        raise UserExc(eb[1])
    raise AssertionError(eb)


def cust_unflatten_for(cls):
    def unflatten(md, children):
        if HOOK is not None:
            HOOK('unflatten', md)
        return cls(list(children), md[0], md[1])
    return unflatten


PET = [None, optree.SequenceEntry, optree.MappingEntry, optree.GetAttrEntry, optree.FlattenedEntry]


class World:
    """Registers the classes a configuration mentions, sets the dict-order mode, restores on exit."""

    def __init__(self, cfg):
        self.cfg = cfg
        (self.nil, self.ns, self.pred, self.regs, self.ins, self.limit) = cfg
        self._done = []
        self._ctx = []

    def __enter__(self):
        for (cls, ns, _rid, pet) in self.regs:
            kw = {}
            if PET[pet] is not None:
                kw['path_entry_type'] = PET[pet]
            optree.register_pytree_node(CUST[cls], cust_flatten, cust_unflatten_for(CUST[cls]),
                                        namespace=ns_reg(ns), **kw)
            self._done.append((cls, ns))
        for ns in self.ins:
            cm = optree.dict_insertion_ordered(True, namespace=ns_reg(ns))
            cm.__enter__()
            self._ctx.append(cm)
        return self

    def __exit__(self, *exc):
        for cm in reversed(self._ctx):
            cm.__exit__(None, None, None)
        for (cls, ns) in reversed(self._done):
            optree.unregister_pytree_node(CUST[cls], namespace=ns_reg(ns))
        return False

    # keyword arguments for the flatten family
    def kw(self):
        d = {'none_is_leaf': bool(self.nil), 'namespace': NS_NAMES[self.ns]}
        p = pred_fn(self.pred)
        if p is not None:
            d['is_leaf'] = p
        return d


def pred_fn(code):
    """the predicate family of Wire.v pred_of_code"""
    if code == 0:
        return None
    if code == 1:
        return lambda o: type(o) is tuple
    if code == 2:
        return lambda o: type(o) in (dict, OrderedDict, defaultdict)
    if code == 3:
        def p3(o):
            if type(o) is list:
                return len(o) == 2
            a = abs_leaf(o)
            return a is not None and a[1] % 3 == 0
        return p3
    if code == 4:
        return lambda o: isinstance(o, CustBase) or hasattr(type(o), '_verif')
    if code == 5:
        return lambda o: o is None
    if code == 6:
        return lambda o: True
    raise ValueError(code)


# ---------------------------------------------------------------- realise / abstract trees
def _build_dict(items, rng, kind, factory=None):
    """build a dict-like reaching the logical state `items` through a random construction history"""
    if kind == 'dict':
        d = {}
    elif kind == 'odict':
        d = OrderedDict()
    else:
        d = defaultdict(FACTORIES[factory])
    mode = rng.randrange(5) if rng is not None else 0
    keys = [k for k, _ in items]
    if mode == 1 and keys:
        # pre-insert a subset in a wrong order with dummy values, delete, then insert in order
        pre = [k for k in keys if rng.random() < 0.5]
        rng.shuffle(pre)
        for k in pre:
            d[k] = 'dummy'
        for k in pre:
            del d[k]
    elif mode == 2:
        # junk keys inserted and removed in between
        for i, (k, v) in enumerate(items):
            junk = ('junk', i)
            d[junk] = 0
            d[k] = v
            del d[junk]
        return d
    elif mode == 3 and kind == 'odict' and keys:
        # wrong order first, then move_to_end in target order
        sh = list(items)
        rng.shuffle(sh)
        for k, v in sh:
            d[k] = v
        for k in keys:
            d.move_to_end(k)
        return d
    elif mode == 4 and kind == 'ddict' and FACTORIES[factory] is not None:
        # auto-insertion through __missing__, then assignment
        for k, v in items:
            d[k]
            d[k] = v
        return d
    for k, v in items:
        d[k] = v
    return d


def _build_deque(children, maxlen, rng):
    mode = rng.randrange(3) if rng is not None else 0
    if mode == 1 and maxlen is not None and len(children) == maxlen and maxlen > 0:
        # overfill: the extra elements on the left are evicted
        d = deque(['evicted'] * rng.randrange(1, 4), maxlen=maxlen)
        for c in children:
            d.append(c)
        return d
    d = deque(children, maxlen=maxlen)
    if mode == 2 and len(children) > 1:
        r = rng.randrange(1, len(children))
        d.rotate(r)
        d.rotate(-r)
    return d


def realize(o, rng=None, leaves=None):
    """abstract object -> Python object; `leaves` (dict id -> object) makes leaf identity stable"""
    if o[0] == 0:
        if leaves is not None and o[1] in leaves:
            return leaves[o[1]]
        r = real_leaf(o[1])
        if leaves is not None:
            leaves[o[1]] = r
        return r
    h = o[1]
    cs = [realize(c, rng, leaves) for c in o[2:]]
    t = h[0]
    if t == 0:
        return None
    if t == 1:
        return tuple(cs)
    if t == 2:
        return cs
    if t == 3:
        return _build_dict(list(zip([real_key(k) for k in h[1:]], cs)), rng, 'dict')
    if t == 4:
        return _build_dict(list(zip([real_key(k) for k in h[1:]], cs)), rng, 'odict')
    if t == 5:
        return _build_dict(list(zip([real_key(k) for k in h[2:]], cs)), rng, 'ddict', h[1])
    if t == 6:
        return _build_deque(cs, h[1] if len(h) > 1 else None, rng)
    if t == 7:
        return nt_class(h[1], len(cs))(*cs)
    if t == 8:
        return STRUCTSEQ[h[1]](cs)
    if t == 9:
        return CUST[h[1]](cs, h[2], h[3])
    raise ValueError(o)


def abstract(x):
    """Python object -> abstract object, by exact type"""
    if x is None:
        return (1, (0,))
    t = type(x)
    if t is tuple:
        return (1, (1,), *[abstract(c) for c in x])
    if t is list:
        return (1, (2,), *[abstract(c) for c in x])
    if t is dict:
        return (1, (3, *[abs_key(k) for k in x]), *[abstract(c) for c in x.values()])
    if t is OrderedDict:
        return (1, (4, *[abs_key(k) for k in x]), *[abstract(c) for c in x.values()])
    if t is defaultdict:
        f = FACTORIES.index(x.default_factory) if x.default_factory in FACTORIES else 98
        return (1, (5, f, *[abs_key(k) for k in x]), *[abstract(c) for c in x.values()])
    if t is deque:
        h = (6,) if x.maxlen is None else (6, x.maxlen)
        return (1, h, *[abstract(c) for c in x])
    if hasattr(t, '_verif') and issubclass(t, tuple):
        return (1, (7, t._verif[0]), *[abstract(c) for c in x])
    if t in STRUCTSEQ:
        return (1, (8, STRUCTSEQ.index(t)), *[abstract(c) for c in x])
    if t in CUST:
        return (1, (9, CUST.index(t), x.meta, x.eb), *[abstract(c) for c in x.children])
    a = abs_leaf(x)
    if a is not None:
        return a
    return (99, 0)


# ---------------------------------------------------------------- treespec state
def abs_okeys(ks):
    if ks is None:
        return ()
    return (1, *[abs_key(k) for k in ks])


def abs_ndata(kind, data):
    if kind in (5, 7):
        return (1, *[abs_key(k) for k in data])
    if kind == 8:
        f = FACTORIES.index(data[0]) if data[0] in FACTORIES else 98
        return (2, f, *[abs_key(k) for k in data[1]])
    if kind == 6:
        return (3, data._verif[0]) if hasattr(data, '_verif') else (3, 98)
    if kind == 10:
        return (3, STRUCTSEQ.index(data)) if data in STRUCTSEQ else (3, 98)
    if kind == 9:
        return (4,) if data is None else (4, data)
    if kind == 0:
        if isinstance(data, tuple) and len(data) == 2 and isinstance(data[0], int):
            return (5, data[0], data[1])
        return (5, 98, (0,))
    if data is None:
        return (0,)
    return (98,)


def abs_spec(spec):
    nodes, nil, ns = spec.__getstate__()
    out = []
    for (kind, arity, data, entries, ctype, nl, nn, orig) in nodes:
        out.append((int(kind), arity, abs_ndata(int(kind), data), abs_okeys(entries),
                    () if ctype is None else ((CUST.index(ctype),) if ctype in CUST else (98,)),
                    nl, nn, abs_okeys(orig)))
    return (tuple(out), 1 if nil else 0, NS_CODES.get(ns, 97))


def abs_path(p):
    return tuple(abs_key(e) for e in p)


def __getattr__(name):
    """namedtuple classes are created on demand; a fresh process unpickling a treespec asks for them by name"""
    import re
    m = re.fullmatch(r'NTS?(\d+)_(\d+)', name)
    if m:
        cls, n = int(m.group(1)), int(m.group(2))
        c = nt_class(cls, n)
        if c.__name__ == name:
            return c
        for b in c.__mro__:
            if b.__name__ == name:
                return b
    raise AttributeError(name)
