"""Common machinery of the per-property workers: run the extracted model on a batch of commands,
diff with the implementation's observations, collect oracle failures, write a result JSON."""
import hashlib
import json
import os
import subprocess
import sys
import time

from . import sx

HERE = os.path.dirname(os.path.abspath(__file__))
DRIVER = os.path.join(os.path.dirname(HERE), 'coq', 'extract', 'driver')


def run_model(cmds):
    """cmds: list of s-expression tuples -> list of result tuples (one per command)"""
    if not cmds:
        return []
    data = '\n'.join(sx.dump(c) for c in cmds) + '\n'
    p = subprocess.run(['bash', '-c', f'ulimit -s unlimited 2>/dev/null; exec {DRIVER}'],
                       input=data.encode(), stdout=subprocess.PIPE, stderr=subprocess.PIPE, check=False)
    if p.returncode != 0:
        raise RuntimeError(f'model driver failed rc={p.returncode}: {p.stderr.decode()[:500]}')
    lines = p.stdout.decode().split('\n')
    if lines and lines[-1] == '':
        lines.pop()
    if len(lines) != len(cmds):
        raise RuntimeError(f'model driver returned {len(lines)} lines for {len(cmds)} commands')
    return [sx.parse(l) for l in lines]


def first_diff(a, b, path=()):
    """position of the first difference between two s-expressions (for reports)"""
    if isinstance(a, int) or isinstance(b, int):
        return None if a == b else (path, a, b)
    if len(a) != len(b):
        for i, (x, y) in enumerate(zip(a, b)):
            d = first_diff(x, y, path + (i,))
            if d:
                return d
        return (path + (min(len(a), len(b)),), f'len {len(a)}', f'len {len(b)}')
    for i, (x, y) in enumerate(zip(a, b)):
        d = first_diff(x, y, path + (i,))
        if d:
            return d
    return None


class Result:
    """accumulates what a worker run covered"""

    def __init__(self, prop, tier, seed):
        self.prop = prop
        self.tier = tier
        self.seed = seed
        self.t0 = time.time()
        self.evaluations = 0          # oracle evaluations + compared cases
        self.programs = 0             # cases compared model vs implementation
        self.distinct = set()         # hashes of distinct non-trivial inputs
        self.samples = []
        self.disagreements = []       # [{'case':..., 'model':..., 'impl':..., 'where':...}]
        self.failures = []            # oracle failures: [{'what':..., 'case':..., 'detail':...}]
        self.known = []               # known findings seen
        self.dist = {}                # measured input distribution
        self.notes = []
        self.exhaustive = False

    def count(self, key, n=1):
        self.dist[key] = self.dist.get(key, 0) + n

    def note_input(self, canon, nontrivial):
        if nontrivial:
            self.distinct.add(hashlib.sha1(repr(canon).encode()).hexdigest()[:16])

    def sample(self, s, cap=6):
        if len(self.samples) < cap:
            self.samples.append(s)

    def compare(self, case, impl_obs, model_obs, label=''):
        self.programs += 1
        self.evaluations += 1
        if model_obs in ((2,), (3,)):
            self.disagreements.append({'case': sx.dump(case), 'model': sx.dump(model_obs),
                                       'impl': sx.dump(impl_obs)[:2000], 'where': 'model could not decode the case',
                                       'label': label})
            return False
        if impl_obs != model_obs:
            d = first_diff(impl_obs, model_obs)
            self.disagreements.append({'case': sx.dump(case), 'model': sx.dump(model_obs)[:4000],
                                       'impl': sx.dump(impl_obs)[:4000],
                                       'where': f'path {d[0]}: impl {sx.dump(d[1]) if not isinstance(d[1], str) else d[1]} '
                                                f'vs model {sx.dump(d[2]) if not isinstance(d[2], str) else d[2]}'
                                       if d else '?', 'label': label})
            return False
        return True

    def fail(self, what, case, detail=''):
        self.failures.append({'what': what, 'case': sx.dump(case) if not isinstance(case, str) else case,
                              'detail': str(detail)[:2000]})

    def to_json(self):
        return {
            'property_id': self.prop, 'tier': self.tier, 'seed': self.seed,
            'evaluations': self.evaluations, 'programs': self.programs,
            'distinct_nontrivial': len(self.distinct), 'samples': self.samples,
            'disagreements': self.disagreements[:50], 'n_disagreements': len(self.disagreements),
            'failures': self.failures[:50], 'n_failures': len(self.failures),
            'known': self.known, 'distribution': self.dist, 'notes': self.notes,
            'exhaustive': self.exhaustive, 'wall_s': round(time.time() - self.t0, 2),
        }


def main(module):
    """entry point of a worker:  python -m harness.props.cNN <tier> <seed> <out.json>"""
    import threading
    tier, seed, out = sys.argv[1], int(sys.argv[2]), sys.argv[3]
    res = Result(module.PROP, tier, seed)
    sys.setrecursionlimit(100000)
    threading.stack_size(1 << 30)
    box = []

    def body():
        try:
            module.run(res, tier, seed)
        except BaseException as e:  # noqa: BLE001
            import traceback
            box.append(traceback.format_exc())
    th = threading.Thread(target=body)
    th.start()
    th.join()
    j = res.to_json()
    if box:
        j['harness_error'] = box[0]
        sys.stderr.write(box[0])
    with open(out, 'w') as f:
        json.dump(j, f, indent=1)
    if box:
        sys.exit(3)
