"""C05 — tree_map family calls the function once per leaf, in order, on aligned arguments.
Correspondence: cmd 4 (result + trace of calls). Oracle: with_path / with_accessor variants, the
underscore variants, identity copy, composition, rejection before the first call, traverse / walk."""
import random

import optree

from .. import gen, runner, sx, world
from ..world import World, abstract, attempt, realize, UserExc

PROP = 'C05'


def make_f(code, trace):
    def f(*row):
        i = len(trace)
        trace.append(row)
        if code >= 100:
            if i == code - 100:
                raise UserExc(77)
            return row[0]
        if code == 0:
            return row[0]
        if code == 1:
            return tuple(row)
        return [row[0], world.real_leaf(7)]
    return f


def impl_map(cfg, code, t, rests, rng, res):
    case = (4, cfg, code, t, tuple(rests))
    with World(cfg) as w:
        leaves = {}
        tree = realize(t, rng, leaves)
        rs = [realize(r, rng, leaves) for r in rests]
        kw = w.kw()
        trace = []
        r = attempt(lambda: optree.tree_map(make_f(code, trace), tree, *rs, **kw))
        obs = ((0, abstract(r[1])) if r[0] == 0 else r,
               tuple(tuple(abstract(x) for x in row) for row in trace))
        # ---- oracle on the implementation
        res.evaluations += 1
        f0 = attempt(lambda: optree.tree_flatten(tree, **kw))
        if f0[0] == 0:
            ls, sp = f0[1]
            ups = [attempt(lambda r_=r_: sp.flatten_up_to(r_)) for r_ in rs]
            # an independent decider of "rest has the structure of tree as a prefix"
            if cfg[2] == 0:
                for r_ in rs:
                    pe = attempt(lambda r_=r_: optree.prefix_errors(tree, r_, **kw))
                    if pe[0] == 0 and pe[1] and (r[0] == 0 or trace):
                        res.fail('a rest that does not have the structure of tree as a prefix (prefix_errors) did not stop tree_map before calling f', case,
                                 f'outcome={r[:1]} calls={len(trace)}')
            if all(u[0] == 0 for u in ups):
                want = [tuple([l] + [u[1][i] for u in ups]) for i, l in enumerate(ls)]
                # independently of flatten_up_to: sub_i(rest) is what the i-th accessor resolves to in rest
                # (skipped where a custom node declares equal entries for two children: such paths are ambiguous)
                accs = attempt(lambda: sp.accessors())
                pths = attempt(lambda: len({repr(p) for p in sp.paths()}) == sp.num_leaves)
                if accs[0] == 0 and pths == (0, True):
                    for u, r_ in zip(ups, rs):
                        for i, a in enumerate(accs[1]):
                            got = attempt(lambda: a(r_))
                            if got[0] == 0 and got[1] is not u[1][i]:
                                res.fail('sub_i(rest) handed to f is not the subtree of rest located at the i-th leaf\'s path', case,
                                         f'leaf {i} path {sp.paths()[i]!r}')
                                break
                if code < 100:
                    if len(trace) != len(want) or any(any(a is not b for a, b in zip(x, y)) or len(x) != len(y)
                                                      for x, y in zip(trace, want)):
                        res.fail('tree_map did not call f once per leaf, in order, on (leaf_i, sub_i(rest)...)', case)
                # variants make the same calls
                for name, fn, extra in (('tree_map_', optree.tree_map_, None),
                                        ('tree_map_with_path', optree.tree_map_with_path, sp.paths()),
                                        ('tree_map_with_path_', optree.tree_map_with_path_, sp.paths()),
                                        ('tree_map_with_accessor', optree.tree_map_with_accessor, sp.accessors()),
                                        ('tree_map_with_accessor_', optree.tree_map_with_accessor_, sp.accessors())):
                    tr2 = []
                    if extra is None:
                        r2 = attempt(lambda: fn(make_f(code, tr2), tree, *rs, **kw))
                        got = tr2
                    else:
                        inner = make_f(code, tr2)
                        firsts = []
                        r2 = attempt(lambda: fn(lambda p, *row: (firsts.append(p), inner(*row))[1], tree, *rs, **kw))
                        got = tr2
                        if firsts != list(extra)[:len(firsts)]:
                            res.fail(f'{name} does not pass the i-th path/accessor first', case)
                    if len(got) != len(trace) or any(any(a is not b for a, b in zip(x, y)) for x, y in zip(got, trace)):
                        res.fail(f'{name} makes different calls than tree_map', case)
                    if r2[0] != r[0] or (r2[0] != 0 and r2 != r):
                        res.fail(f'{name} outcome differs from tree_map', case, f'{r2} vs {r}')
                    elif r2[0] == 0 and name.endswith('_') and r2[1] is not tree:
                        res.fail(f'{name} does not return the original tree object', case)
                    elif r2[0] == 0 and not name.endswith('_') and abstract(r2[1]) != abstract(r[1]):
                        res.fail(f'{name} result differs from tree_map', case)
                if code == 0 and r[0] == 0:
                    # identity: structurally identical copy, new containers, same leaves
                    if abstract(r[1]) != t:
                        res.fail('tree_map(identity) is not a structurally identical copy', case)
                    elif t[0] == 1 and not sp.is_leaf() and r[1] is tree and type(tree) is not tuple and tree is not None:
                        res.fail('tree_map(identity) returned the same container object', case)
            else:
                # some rest is not a suffix: ValueError before f is called at all
                if r[0] == 0 or trace:
                    res.fail('a rest that does not have the structure of tree as a prefix did not stop tree_map before calling f', case,
                             f'outcome={r[:2]} calls={len(trace)}')
                elif r[1:] != (1,) and all(u[0] == 0 or u[1:] == (1,) for u in ups):
                    res.fail('mismatching rest raised something other than ValueError', case, r)
            # traverse / walk
            if r[0] == 0 and code == 0 and not rests:
                order = []
                out = sp.traverse(ls, lambda node: (order.append(('n', id(node))), node)[1],
                                  lambda leaf: (order.append(('l', id(leaf))), leaf)[1])
                if [x[1] for x in order if x[0] == 'l'] != [id(l) for l in ls]:
                    res.fail('traverse does not apply the leaf function in leaf order', case)
                if sum(1 for x in order if x[0] == 'n') != sp.num_nodes - sp.num_leaves:
                    res.fail('traverse does not apply the node function exactly once per internal node', case)
                if abstract(out) != t:
                    res.fail('traverse with identity functions does not rebuild the tree', case)
                # each function alone: the other one missing means "identity, never called", not "skip both"
                only_n, only_l = [], []
                sp.traverse(ls, lambda node: (only_n.append(id(node)), node)[1])
                sp.traverse(ls, lambda node: (only_n.append(id(node)), node)[1], None)
                if len(only_n) != 2 * (sp.num_nodes - sp.num_leaves):
                    res.fail('traverse with a node function and no leaf function does not call it once per internal node', case,
                             f'{len(only_n)} calls in two runs, {sp.num_nodes - sp.num_leaves} internal nodes')
                sp.traverse(ls, None, lambda leaf: (only_l.append(id(leaf)), leaf)[1])
                if only_l != [id(l) for l in ls]:
                    res.fail('traverse with a leaf function and no node function does not call it on every leaf in order', case)
                seen = []
                sp.walk(ls, lambda tp, data, children: (seen.append((tp, len(children))), tuple(children))[1], None)
                if len(seen) != sp.num_nodes - sp.num_leaves:
                    res.fail('walk does not call the node function once per internal node', case)
        return case, obs


def run(res, tier, seed):
    rng = random.Random(seed * 1000003 + 5)
    limit = optree.MAX_RECURSION_DEPTH
    n = 1500 if tier == 'quick' else 30000
    cmds, obs = [], []
    for i in range(n):
        cfg = gen.gen_cfg(rng, limit)
        g = gen.TreeGen(rng, world.STRUCTSEQ_ARITY, max_nodes=rng.choice([6, 15, 30]),
                        max_depth=rng.choice([3, 5, 8]), max_arity=rng.choice([2, 3, 5]))
        full = g.tree()
        t = gen.make_prefix(rng, full, rng.choice([0.0, 0.2, 0.4]))
        nrest = rng.choice([0, 0, 1, 1, 2, 3])
        rests = []
        for j in range(nrest):
            r = rng.random()
            if r < 0.6:
                rests.append(gen.vary_dicts(rng, full) if rng.random() < 0.5 else full)
            elif r < 0.8:
                rests.append(gen.local_edit(rng, full, world.STRUCTSEQ_ARITY))
            else:
                rests.append(gen.make_prefix(rng, t, 0.3))
        nleaves_guess = max(1, gen.obj_nodes(t))
        code = rng.choice([0, 0, 1, 3, 100 + rng.randrange(0, min(6, nleaves_guess))])
        res.count('rests_%d' % nrest)
        res.count('f_%s' % ('raise' if code >= 100 else code))
        res.note_input((cfg, code, t, tuple(rests)), gen.obj_internal(t) >= 2)
        c, o = impl_map(cfg, code, t, rests, random.Random(rng.getrandbits(48)), res)
        cmds.append(c)
        obs.append(o)
    mod = runner.run_model(cmds)
    for c, a, b in zip(cmds, obs, mod):
        res.compare(c, a, b, 'cmd_map')
        res.count('map_%s' % ('ok' if a[0][0] == 0 else 'err'))
    for c in cmds[:3]:
        res.sample(sx.dump(c)[:500])
    run_traverse(res, rng, n, limit)


def wfun(code, is_leaf_fn, trace):
    """the function family of Run.v wfun_of; records (kind, abstract argument) before acting"""
    if code == 0:
        return None
    calls = [0]

    def f(x):
        i = calls[0]
        calls[0] += 1
        trace.append((0 if is_leaf_fn else 1, abstract(x)))
        if code == 1:
            return x
        if code == 2:
            return (x,) if is_leaf_fn else [x]
        if i == code - 100:
            raise UserExc(77)
        return x
    return f


def run_traverse(res, rng, n, limit):
    """cmd 24: PyTreeSpec.traverse with recording functions"""
    cmds, obs = [], []
    for i in range(n):
        cfg = gen.gen_cfg(rng, limit)
        g = gen.TreeGen(rng, world.STRUCTSEQ_ARITY, max_nodes=rng.choice([6, 15, 30]),
                        max_depth=rng.choice([3, 5]), max_arity=rng.choice([2, 3, 5]))
        t = g.tree()
        fl = rng.choice([0, 1, 1, 2, 100 + rng.randrange(0, 5)])
        fn = rng.choice([0, 1, 1, 2, 100 + rng.randrange(0, 4)])
        case = (24, cfg, t, fl, fn)
        with World(cfg) as w:
            tree = realize(t, random.Random(i), {})
            f = attempt(lambda: optree.tree_flatten(tree, **w.kw()))
            if f[0] != 0:
                o = f
            else:
                ls, sp = f[1]
                trace = []
                r = attempt(lambda: sp.traverse(ls, wfun(fn, False, trace), wfun(fl, True, trace)))
                o = (0, (0, abstract(r[1])) if r[0] == 0 else r, tuple(trace))
        cmds.append(case)
        obs.append(o)
        res.count('traverse_fl%s_fn%s' % (min(fl, 100), min(fn, 100)))
        res.note_input(case, gen.obj_internal(t) >= 2)
    mod = runner.run_model(cmds)
    for c, a, b in zip(cmds, obs, mod):
        res.compare(c, a, b, 'cmd_traverse_fn')


if __name__ == '__main__':
    runner.main(__import__('harness.props.c05', fromlist=['x']))
