"""C09 — broadcasting replicates prefix leaves onto the matching positions.
Correspondence: cmd 3 (broadcast_to_common_suffix both ways, full arrays incl. node_entries and
original_keys) and cmd 5 (tree_broadcast_prefix, broadcast_prefix, tree_broadcast_common,
broadcast_common). Oracle: path-prefix law, lattice laws, operands unchanged, broadcast_map."""
import random

import optree

from .. import gen, runner, sx, world
from ..world import World, abstract, attempt, realize
from . import specops

PROP = 'C09'


def is_path_prefix(p, q):
    return len(p) <= len(q) and tuple(q[:len(p)]) == tuple(p)


def impl_broadcast(cfg, t1, t2, rng, res):
    case = (5, cfg, t1, t2)
    with World(cfg) as w:
        leaves = {}
        a = realize(t1, rng, leaves)
        b = realize(t2, rng, leaves)
        kw = w.kw()
        r1 = attempt(lambda: optree.tree_broadcast_prefix(a, b, **kw))
        r2 = attempt(lambda: optree.broadcast_prefix(a, b, **kw))
        r3 = attempt(lambda: optree.tree_broadcast_common(a, b, **kw))
        r4 = attempt(lambda: optree.broadcast_common(a, b, **kw))
        obs = ((0, abstract(r1[1])) if r1[0] == 0 else r1,
               (0, tuple(abstract(x) for x in r2[1])) if r2[0] == 0 else r2,
               (0, (abstract(r3[1][0]), abstract(r3[1][1]))) if r3[0] == 0 else r3,
               (0, (tuple(abstract(x) for x in r4[1][0]), tuple(abstract(x) for x in r4[1][1]))) if r4[0] == 0 else r4)
        # ---- oracle
        res.evaluations += 1
        fa = attempt(lambda: optree.tree_flatten_with_path(a, **kw))
        fb = attempt(lambda: optree.tree_flatten_with_path(b, **kw))
        if fa[0] == 0 and fb[0] == 0:
            pa, la, sa = fa[1]
            pb, lb, sb = fb[1]
            up = attempt(lambda: sa.flatten_up_to(b))
            if up[0] == 0:
                if r1[0] != 0 or r2[0] != 0:
                    res.fail('prefix is a structural prefix of full but broadcast_prefix raised', case, (r1, r2))
                else:
                    # in the result every leaf equals the unique prefix leaf whose path is a prefix of its path
                    got_ps, got_ls, got_sp = optree.tree_flatten_with_path(r1[1], **kw)
                    plain_paths = all(type(e).__name__ != 'FlattenedEntry' for acc in sa.accessors() for e in acc)
                    if plain_paths and cfg[2] == 0:
                        for q, x in zip(got_ps, got_ls):
                            cands = [l for p, l in zip(pa, la) if is_path_prefix(p, q)]
                            if len(cands) != 1 or cands[0] is not x:
                                res.fail('a leaf of tree_broadcast_prefix is not the unique prefix leaf whose path is a prefix of its path', case)
                                break
                    if len(got_ls) != len(r2[1]) or any(x is not y for x, y in zip(got_ls, r2[1])):
                        res.fail('broadcast_prefix differs from the leaves of tree_broadcast_prefix', case)
                    full_sp = optree.tree_structure(b, **kw)
                    if cfg[2] == 0 and not (got_sp.is_prefix(full_sp) and full_sp.is_prefix(got_sp)):
                        res.fail('tree_broadcast_prefix does not have the structure of the full tree', case)
            elif up[1:] == (1,):
                if r1[0] == 0 or r2[0] == 0:
                    res.fail('prefix is not a structural prefix of full but broadcast_prefix succeeded', case)
                elif r1[1:] != (1,) or r2[1:] != (1,):
                    res.fail('broadcast_prefix raised something other than ValueError', case, (r1, r2))
            if r3[0] == 0 and cfg[2] == 0:
                x, y = r3[1]
                sx_, sy_ = optree.tree_structure(x, **kw), optree.tree_structure(y, **kw)
                if sx_.num_leaves != sy_.num_leaves or not sx_.is_prefix(sy_) or not sy_.is_prefix(sx_):
                    res.fail('tree_broadcast_common results do not share one structure', case, f'{sx_} / {sy_}')
                if not sa.is_prefix(sx_) or not sb.is_prefix(sy_):
                    res.fail('an operand is not a prefix of its broadcast result', case)
                # broadcast_map over n trees equals tree_map over the broadcast trees
                rec1, rec2 = [], []
                m1 = attempt(lambda: optree.tree_broadcast_map(lambda *xs: (rec1.append(xs), xs[0])[1], a, b, **kw))
                m2 = attempt(lambda: optree.tree_map(lambda *xs: (rec2.append(xs), xs[0])[1], x, y, **kw))
                if m1[0] != m2[0] or len(rec1) != len(rec2) or any(any(p is not q for p, q in zip(u, v)) for u, v in zip(rec1, rec2)):
                    res.fail('tree_broadcast_map differs from tree_map over the broadcast trees', case)
                # ... and so do the with_path / with_accessor variants (first argument: the path / accessor
                # of the leaf in the common structure)
                for vname, bfn, mfn in (('with_path', optree.tree_broadcast_map_with_path, optree.tree_map_with_path),
                                        ('with_accessor', optree.tree_broadcast_map_with_accessor, optree.tree_map_with_accessor)):
                    rec3, rec4 = [], []
                    m3 = attempt(lambda: bfn(lambda p, *xs: (rec3.append((p, xs)), xs[0])[1], a, b, **kw))
                    m4 = attempt(lambda: mfn(lambda p, *xs: (rec4.append((p, xs)), xs[0])[1], x, y, **kw))
                    if m3[0] != m4[0] or len(rec3) != len(rec4) or len(rec3) != len(rec1) \
                            or any(pu != pv or any(p is not q for p, q in zip(u, v)) for (pu, u), (pv, v) in zip(rec3, rec4)):
                        res.fail(f'tree_broadcast_map_{vname} differs from tree_map_{vname} over the broadcast trees', case,
                                 f'{m3[0]} {m4[0]} {len(rec3)} {len(rec4)}')
                    elif m3[0] == 0 and m1[0] == 0 and optree.tree_structure(m3[1], **kw) != optree.tree_structure(m1[1], **kw):
                        res.fail(f'tree_broadcast_map_{vname} returns another structure than tree_broadcast_map', case)
        return case, obs


def oracle_pair(res, case, t1, t2, s1, s2, kw1, kw2, out):
    res.evaluations += 1
    st1, st2 = s1.__getstate__(), s2.__getstate__()
    rp1, rp2 = repr(s1), repr(s2)
    same_registry = case[1][3] == case[3][3]      # the pair generator may change the registry after s1 was made
    r12 = attempt(lambda: s1.broadcast_to_common_suffix(s2))
    r21 = attempt(lambda: s2.broadcast_to_common_suffix(s1))
    if s1.__getstate__() != st1 or s2.__getstate__() != st2 or repr(s1) != rp1 or repr(s2) != rp2 \
            or (same_registry and repr(s1) != repr(optree.tree_structure(t1, **kw1))):
        res.fail('broadcast_to_common_suffix changed an operand', case)
    if (r12[0] == 0) != (r21[0] == 0):
        res.fail('broadcast_to_common_suffix succeeds in one argument order only', case)
    if r12[0] != 0:
        if r12[1:] != (1,):
            res.fail('broadcast_to_common_suffix raised something other than ValueError', case, r12)
        if s1.is_prefix(s2) or s2.is_prefix(s1):
            res.fail('broadcast_to_common_suffix raised although one operand is a prefix of the other', case)
        return
    j, j2 = r12[1], r21[1]
    if j.namespace != (s2.namespace or s1.namespace) or j2.namespace != (s1.namespace or s2.namespace) \
            or j.none_is_leaf != s1.none_is_leaf:
        res.fail("the common suffix does not carry the operands' namespace / none_is_leaf", case,
                 f'{s1.namespace!r} {s2.namespace!r} -> {j.namespace!r} / {j2.namespace!r}')
    if not s1.is_prefix(j) or not s2.is_prefix(j):
        res.fail('the common suffix is not an upper bound of the operands', case, f'{s1} {s2} -> {j}')
    if not (j.is_prefix(j2) and j2.is_prefix(j)):
        res.fail('the result depends on the argument order beyond dict kind/order', case)
    if j.broadcast_to_common_suffix(j) != j or s1.broadcast_to_common_suffix(s1) != s1:
        res.fail('broadcast_to_common_suffix is not idempotent', case)
    if s1.is_prefix(s2) and not (j.is_prefix(s2) and s2.is_prefix(j)):
        res.fail('a is a prefix of b but the common suffix is not b', case)
    # least: any common upper bound we can build (the join with a third spec) is above j
    # own node types / key order / custom entries: where s1 is non-leaf the result has s1's node
    if not s1.is_leaf() and not s2.is_leaf():
        n1, nj = st1[0][-1], j.__getstate__()[0][-1]
        if (n1[0], n1[1], n1[2], n1[3], n1[4], n1[7]) != (nj[0], nj[1], nj[2], nj[3], nj[4], nj[7]):
            res.fail("the result's root does not keep the first operand's node type / key order / entries", case)
        if j.entries() != s1.entries():
            res.fail("the result's entries differ from the first operand's", case)
    # paths of the result: every result path extends a path of each operand
    pj = j.paths()
    for s in (s1, s2):
        ps = s.paths()
        if s is s1 and any(sum(1 for p in ps if is_path_prefix(p, q)) != 1 for q in pj):
            res.fail('a path of the common suffix does not extend exactly one path of the first operand', case)


def oracle_nary(res, rng, limit):
    """tree_broadcast_map over 3-4 trees equals tree_map over the trees each broadcast to the common
    suffix of all (computed independently with broadcast_to_common_suffix + tree_broadcast_prefix)"""
    cfg = gen.gen_cfg(rng, limit)
    cfg = (cfg[0] if rng.random() < 0.5 else 1, cfg[1], 0, cfg[3], cfg[4], cfg[5])
    g = gen.TreeGen(rng, world.STRUCTSEQ_ARITY, max_nodes=14, max_depth=4, max_arity=3, none_p=0.25)
    base = g.tree()
    n = rng.choice([3, 3, 4])
    trees = []
    for i in range(n):
        t = gen.make_prefix(rng, gen.vary_dicts(rng, base) if rng.random() < 0.4 else base, rng.choice([0.2, 0.4, 0.7]))
        if rng.random() < 0.15:
            t = gen.local_edit(rng, t, world.STRUCTSEQ_ARITY)
        trees.append(t)
    case = (5, cfg, trees[0], trees[1], *trees[2:])
    with World(cfg) as w:
        kw = w.kw()
        leaves = {}
        ts = [realize(t, rng, leaves) for t in trees]
        specs = []
        for t in ts:
            r = attempt(lambda: optree.tree_structure(t, **kw))
            if r[0] != 0:
                return
            specs.append(r[1])
        res.evaluations += 1
        common = specs[0]
        ok = True
        for s_ in specs[1:]:
            r = attempt(lambda: common.broadcast_to_common_suffix(s_))
            if r[0] != 0:
                ok = False
                break
            common = r[1]
        rec = []
        m = attempt(lambda: optree.tree_broadcast_map(lambda *xs: (rec.append(xs), xs[0])[1], *ts, **kw))
        if not ok:
            if m[0] == 0:
                res.fail('tree_broadcast_map succeeded although the trees have no common suffix', case)
            return
        ctree = common.unflatten([world.Opaque(90000 + i) for i in range(common.num_leaves)])
        bts = []
        for t in ts:
            r = attempt(lambda: optree.tree_broadcast_prefix(t, ctree, **kw))
            if r[0] != 0:
                return
            bts.append(r[1])
        rec2 = []
        m2 = attempt(lambda: optree.tree_map(lambda *xs: (rec2.append(xs), xs[0])[1], *bts, **kw))
        if m[0] != m2[0]:
            res.fail('tree_broadcast_map over n trees raises although every tree broadcasts to the common suffix', case, m)
        elif len(rec) != len(rec2) or any(any(p is not q for p, q in zip(u, v)) for u, v in zip(rec, rec2)):
            res.fail('tree_broadcast_map over n trees differs from tree_map over the trees broadcast to the common suffix of all', case)


def run(res, tier, seed):
    rng = random.Random(seed * 1000003 + 9)
    limit = optree.MAX_RECURSION_DEPTH
    n = 1500 if tier == 'quick' else 30000
    specops.run_pairs(res, rng, n, limit, hook=oracle_pair)
    cmds, obs = [], []
    for i in range(n):
        cfg = gen.gen_cfg(rng, limit)
        g = gen.TreeGen(rng, world.STRUCTSEQ_ARITY, max_nodes=rng.choice([6, 15, 30]),
                        max_depth=rng.choice([3, 5, 8]), max_arity=rng.choice([2, 3, 5]))
        o1, o2, label = gen.gen_pair(rng, g, world.STRUCTSEQ_ARITY)
        if label in ('same', 'dictvar', 'unrelated') and rng.random() < 0.5:
            o1 = gen.make_prefix(rng, o1, 0.3)
        res.count('bcast_' + label)
        res.note_input((cfg, o1, o2), gen.obj_internal(o1) + gen.obj_internal(o2) >= 2)
        c, o = impl_broadcast(cfg, o1, o2, random.Random(rng.getrandbits(48)), res)
        cmds.append(c)
        obs.append(o)
    for i in range(n // 2):
        oracle_nary(res, rng, limit)
    mod = runner.run_model(cmds)
    for c, a, b in zip(cmds, obs, mod):
        res.compare(c, a, b, 'cmd_broadcast')
        res.count('bprefix_%s' % ('ok' if a[0][0] == 0 else 'err'))
        res.count('bcommon_%s' % ('ok' if a[2][0] == 0 else 'err'))
    for c in cmds[:3]:
        res.sample(sx.dump(c)[:500])


if __name__ == '__main__':
    runner.main(__import__('harness.props.c09', fromlist=['x']))
