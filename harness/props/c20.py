"""C20 — tree_ravel and its unravel function are mutually inverse.
Correspondence: cmd 11 — the size/shape/dtype/offset bookkeeping of the model vs each backend on a
chain of dtypes with small integer values (promotion = max of the chain, casts exact).
Oracle per backend (numpy, jax, torch), bit-exact: ravel = concatenation of raveled leaves in leaf
order in the promoted dtype; unravel(ravel(t)) == t (structure, shapes, dtypes, bytes);
ravel(unravel(v)) == v; rejection of wrong shape always and of wrong dtype iff mixed dtypes."""
import itertools
import random

import numpy as np
import optree

from .. import gen, runner, sx, world

PROP = 'C20'


def backends():
    out = {}
    from optree.integration import numpy as onp
    out['numpy'] = dict(ravel=onp.tree_ravel, mk=lambda a, dt: np.asarray(a, dtype=dt),
                        chain=[np.bool_, np.int8, np.int16, np.int32, np.int64, np.float64, np.complex128],
                        tonp=lambda x: np.asarray(x), dtype_of=lambda x: np.asarray(x).dtype,
                        extra=[np.uint8, np.float16, np.float32, np.complex64, np.uint32],
                        layouts=[lambda x: np.asfortranarray(x), lambda x: np.ascontiguousarray(x.T).T,
                                 lambda x: np.repeat(x, 2, axis=-1)[..., ::2]])
    try:
        import jax
        import jax.numpy as jnp
        from optree.integration import jax as ojax
        out['jax'] = dict(ravel=ojax.tree_ravel, mk=lambda a, dt: jnp.asarray(np.asarray(a), dtype=dt),
                          chain=[jnp.bool_, jnp.int8, jnp.int16, jnp.int32, jnp.float32, jnp.complex64],
                          tonp=lambda x: np.asarray(x), dtype_of=lambda x: np.asarray(x).dtype,
                          extra=[jnp.uint8, jnp.float16, jnp.bfloat16])
    except Exception as e:  # noqa: BLE001
        out['jax_error'] = repr(e)
    try:
        import torch
        from optree.integration import torch as otorch
        out['torch'] = dict(ravel=otorch.tree_ravel, mk=lambda a, dt: torch.as_tensor(np.asarray(a), dtype=dt),
                            chain=[torch.bool, torch.int8, torch.int16, torch.int32, torch.int64, torch.float32,
                                   torch.complex64],
                            tonp=lambda x: x.detach().cpu().numpy(), dtype_of=lambda x: x.dtype,
                            extra=[torch.uint8, torch.float16, torch.float64],
                            layouts=[lambda x: x.transpose(0, -1).contiguous().transpose(0, -1),
                                     lambda x: x.repeat_interleave(2, dim=-1)[..., ::2]])
    except Exception as e:  # noqa: BLE001
        out['torch_error'] = repr(e)
    return out


SHAPES = [(), (0,), (1,), (3,), (2, 2), (0, 3), (2, 0), (1, 1, 1), (2, 1, 2), (3, 0, 2), (4,), (2, 3)]


def gen_case(rng, nchain, single):
    g = gen.TreeGen(rng, world.STRUCTSEQ_ARITY, max_nodes=rng.choice([3, 8, 14]), max_depth=4, max_arity=4,
                    custom_classes=(5,), none_p=0.1)
    o = g.tree(kinds=['tuple', 'list', 'dict', 'odict', 'named', 'deque', 'none'])
    nl = g.next_id
    leaves = {}
    base = rng.randrange(nchain)
    for i in range(1, nl + 1):
        sh = rng.choice(SHAPES)
        d = base if single else rng.randrange(nchain)
        n = int(np.prod(sh)) if sh else 1
        vals = [rng.randrange(0, 2) if d == 0 else rng.randrange(0, 100) for _ in range(n)]
        leaves[i] = (sh, d, vals)
    return o, leaves


def realize_arrays(o, leaves, be):
    if o[0] == 0:
        sh, d, vals = leaves[o[1]]
        return be['mk'](np.asarray(vals, dtype=np.int64).reshape(sh), be['chain'][d])
    table = {}

    def build(x):
        if x[0] == 0:
            sh, d, vals = leaves[x[1]]
            a = be['mk'](np.asarray(vals, dtype=np.int64).reshape(sh), be['chain'][d])
            table[x[1]] = a
            return a
        return x
    # reuse the generic realiser by pre-seeding the leaf table
    tab = {}
    for i, (sh, d, vals) in leaves.items():
        a = np.asarray(vals, dtype=np.int64).reshape(sh)
        x = be['mk'](a, be['chain'][d])
        if len(sh) >= 2 and i % 3 == 0 and be.get('layouts'):
            # same logical array, other memory layout (transposed view / Fortran order / strided)
            x = be['layouts'][i % len(be['layouts'])](x)
        tab[i] = x
    return world.realize(o, None, tab)


def bits(be, x):
    a = be['tonp'](x)
    return (str(a.dtype), a.shape, a.tobytes())


def leaf_order(o, acc):
    """leaf ids in flatten order (dict keys here are sortable strings / ints: sorted order)"""
    return acc


def check_backend(res, name, be, rng, n):
    cmds, obs = [], []
    for it in range(n):
        single = rng.random() < 0.4
        o, leaves = gen_case(rng, len(be['chain']), single)
        case = (11, name, sx.dump(o)[:200])
        tree = realize_arrays(o, leaves, be)
        res.evaluations += 1
        res.count(f'{name}_{"single" if single else "mixed"}')
        flat, unravel = be['ravel'](tree)
        ls, spec = optree.tree_flatten(tree)
        res.note_input((tuple(sorted((k, v[0], v[1]) for k, v in leaves.items())), o), len(ls) >= 2)
        # --- oracle
        if len(ls) == 0:
            if be['tonp'](flat).shape != (0,):
                res.fail(f'{name}: a tree without leaves does not ravel to an empty 1-D array', case)
            back = unravel(flat)
            if optree.tree_structure(back) != spec:
                res.fail(f'{name}: unravel of the empty vector does not give back the structure', case)
            continue
        dts = [be['chain'].index(be['dtype_of'](x)) if be['dtype_of'](x) in be['chain'] else -1 for x in ls]
        want_dt = be['chain'][max(dts)]
        want = np.concatenate([be['tonp'](x).ravel().astype(be['tonp'](be['mk'](0, want_dt)).dtype) for x in ls])
        got = be['tonp'](flat)
        if got.ndim != 1 or got.dtype != want.dtype or got.tobytes() != want.tobytes():
            res.fail(f'{name}: ravel is not the concatenation of the raveled leaves in the promoted dtype', case,
                     f'{got.dtype}{got.shape} vs {want.dtype}{want.shape}')
        rb = world.attempt(lambda: unravel(flat))
        if rb[0] != 0:
            res.fail(f'{name}: unravel(ravel(t)) raised', case, rb)
            continue
        back = rb[1]
        bl, bspec = optree.tree_flatten(back)
        if bspec != spec or len(bl) != len(ls) or any(bits(be, a) != bits(be, b) for a, b in zip(bl, ls)):
            res.fail(f'{name}: unravel(ravel(t)) differs from t (structure, shape, dtype or bytes)', case)
        # any other vector of the same length and dtype
        other = be['mk'](np.asarray([(7 * i + 3) % 2 if min(dts) == 0 else (7 * i + 3) % 50 for i in range(got.shape[0])]), want_dt)
        rb2 = world.attempt(lambda: unravel(other))
        if rb2[0] != 0:
            res.fail(f'{name}: the unravel function raised on a vector of the right length and dtype (called again)', case, rb2)
            continue
        back2 = rb2[1]
        flat2, _ = be['ravel'](back2)
        bl2 = optree.tree_leaves(back2)
        if optree.tree_structure(back2) != spec or [be['tonp'](x).shape for x in bl2] != [be['tonp'](x).shape for x in ls]:
            res.fail(f'{name}: unravel(v) does not have the original structure / shapes', case)
        mixed = len(set(dts)) > 1
        if mixed and [str(be['dtype_of'](x)) for x in bl2] != [str(be['dtype_of'](x)) for x in ls]:
            res.fail(f'{name}: unravel(v) does not restore the original leaf dtypes', case)
        representable = True   # the values of `other` fit every leaf dtype (0/1 when a bool leaf is present)
        if representable and bits(be, flat2) != bits(be, other):
            res.fail(f'{name}: ravel(unravel(v)) differs from v', case)
        # rejections
        for bad in (be['mk'](np.zeros(got.shape[0] + 1), want_dt), be['mk'](np.zeros((got.shape[0], 1)), want_dt)):
            r = world.attempt(lambda: unravel(bad))
            if r[0] == 0:
                res.fail(f'{name}: unravel accepted an array of the wrong shape', case)
        other_dt = be['chain'][(max(dts) + 1) % len(be['chain'])]
        r = world.attempt(lambda: unravel(be['mk'](np.zeros(got.shape[0]), other_dt)))
        if mixed and r[0] == 0:
            res.fail(f'{name}: unravel accepted the wrong dtype although the leaves had mixed dtypes', case)
        if not mixed and r[0] != 0:
            res.fail(f'{name}: unravel rejected another dtype although all leaves had one dtype', case, r)
        # --- correspondence with the model's bookkeeping
        ids = [k for k in sorted(leaves)]
        order = []
        for x in ls:
            for k in ids:
                if be['tonp'](x).shape == tuple(leaves[k][0]) and k not in order and \
                        list(be['tonp'](x).ravel().real.astype(np.int64)) == leaves[k][2] and dts[len(order)] == leaves[k][1]:
                    order.append(k)
                    break
        if len(order) != len(ls):
            continue
        marrs = tuple((tuple(leaves[k][0]), leaves[k][1], tuple(leaves[k][2])) for k in order)
        v2 = tuple(int(z) for z in be['tonp'](other).real.astype(np.int64))
        cmds.append((11, marrs, v2, max(dts)))

        def enc(arrs):
            return (0, *[(tuple(be['tonp'](a).shape), be['chain'].index(be['dtype_of'](a)),
                          tuple(int(z) for z in be['tonp'](a).ravel().real.astype(np.int64))) for a in arrs])
        obs.append((tuple(int(z) for z in got.real.astype(np.int64)), max(dts), enc(bl), enc(bl2)))
    mod = runner.run_model(cmds)
    for c, a, b in zip(cmds, obs, mod):
        res.compare(c, a, b, f'cmd_ravel_{name}')


def promotion_table(res, name, be):
    """the chain assumption itself: result_type(chain[i], chain[j]) == chain[max(i, j)], exhaustively"""
    n = len(be['chain'])
    for i, j in itertools.product(range(n), repeat=2):
        t = {'a': be['mk'](np.zeros(1), be['chain'][i]), 'b': be['mk'](np.zeros(2), be['chain'][j])}
        flat, _ = be['ravel'](t)
        res.evaluations += 1
        if be['dtype_of'](flat) != be['chain'][max(i, j)]:
            res.fail(f'{name}: promoted dtype of the chain differs from the model parameter', f'{i},{j}',
                     f'{be["dtype_of"](flat)}')


def promotion_sets(res, name, be, tier):
    """"their common promoted dtype": for three leaves of ANY three dtypes of the backend (the chain and the
    ones off it: unsigned, half precision, ...) in ANY order, the dtype of the flat array is the backend's
    own n-ary promotion of the set - in particular it does not depend on the order of the leaves - and the
    values are the leaves' values in that dtype"""
    import functools
    dts = list(be['chain']) + list(be.get('extra', []))
    if name == 'numpy':
        nary = lambda ds: np.result_type(*[np.dtype(d) for d in ds])          # noqa: E731
    elif name == 'jax':
        import jax.numpy as jnp
        nary = lambda ds: np.dtype(jnp.result_type(*ds))                       # noqa: E731
    else:
        import torch
        nary = lambda ds: functools.reduce(torch.promote_types, ds)           # noqa: E731
    by_set = {}
    for trip in itertools.product(range(len(dts)), repeat=3):
        if tier == 'quick' and name != 'numpy' and len(set(trip)) < 3 and trip[0] != trip[1]:
            continue
        leaves = [be['mk'](np.ones(sh, dtype=np.int64), dts[i]) for i, sh in zip(trip, ((2,), (), (1, 2)))]
        res.evaluations += 1
        flat, unravel = be['ravel']({'a': leaves[0], 'b': [leaves[1], leaves[2]]})
        got = be['dtype_of'](flat)
        case = f'{name}: leaf dtypes {[str(dts[i]) for i in trip]}'
        want = nary([dts[i] for i in trip])
        if got != want:
            res.fail(f'{name}: the flat array is not in the common promoted dtype of the leaves', case, f'{got} vs {want}')
        key = frozenset(trip)
        if key in by_set and by_set[key][0] != got and len(set(trip)) == len(key) == len(set(by_set[key][1])):
            res.fail(f'{name}: the promoted dtype depends on the order of the leaves', case, f'{got} vs {by_set[key][0]} for {by_set[key][1]}')
        by_set.setdefault(key, (got, trip))
        vals = be['tonp'](flat)
        if vals.shape != (5,) or not (vals == 1).all():
            res.fail(f'{name}: values changed by the conversion to the promoted dtype', case, repr(vals))
        back = world.attempt(lambda: unravel(flat))
        if back[0] != 0 or [str(be['dtype_of'](x)) for x in optree.tree_leaves(back[1])] != [str(be['dtype_of'](x)) for x in leaves]:
            res.fail(f'{name}: unravel(ravel(t)) does not restore the leaf dtypes', case, back if back[0] else '')
    res.count(f'{name}_promotion_triples', len(by_set))


def run(res, tier, seed):
    rng = random.Random(seed * 1000003 + 20)
    bes = backends()
    n = {'quick': 250, 'thorough': 5000}[tier]
    for name in ('numpy', 'jax', 'torch'):
        if name not in bes:
            res.notes.append(f'{name} backend unavailable: {bes.get(name + "_error")}')
            continue
        promotion_table(res, name, bes[name])
        promotion_sets(res, name, bes[name], tier)
        check_backend(res, name, bes[name], rng, n)
    res.sample('ravel cases: random trees (tuple/list/dict/OrderedDict/namedtuple/deque/None) of arrays with shapes '
               + str(SHAPES) + ' over each backend dtype chain')


if __name__ == '__main__':
    runner.main(__import__('harness.props.c20', fromlist=['x']))
