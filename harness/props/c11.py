"""C11 — pickling a treespec preserves it exactly.
Correspondence: cmd 9 — flatten under one registry, pickle (protocols 2..HIGHEST, copy, deepcopy),
load under the same / a changed registry (missing registration, re-registered type, registration moved
between namespaces), in the same process and in a freshly spawned process.
Oracle: loaded == original, == a fresh flatten, equal hash, same repr/paths/accessors/entries/children,
same unflatten (incl. original dict key order); missing registration raises."""
import copy
import pickle
import random
import subprocess
import sys
import os

import optree

from .. import gen, runner, sx, world
from ..world import World, abstract, attempt, realize

PROP = 'C11'

FRESH_SCRIPT = r'''
import sys, pickle, json
sys.setrecursionlimit(100000)
from harness import world, sx
import optree
cfg = sx.parse(sys.argv[1])
data = sys.stdin.buffer.read()
with world.World(cfg) as w:
    r = world.attempt(lambda: pickle.loads(data))
    if r[0] == 0:
        sp = r[1]
        print(sx.dump((0, world.abs_spec(sp))), repr(sp).replace('\n', ' '), sep='\t')
    else:
        print(sx.dump(r), '', sep='\t')
'''


def used_classes(o, acc):
    if o[0] == 1:
        if o[1][0] == 9:
            acc.add(o[1][1])
        for c in o[2:]:
            used_classes(c, acc)
    return acc


def mutate_regs(rng, regs, used=()):
    """the registry of the loading side: (regs2, label)"""
    regs = list(regs)
    r = rng.random()
    if r < 0.45 or not regs:
        return tuple(regs), 'same'
    pref = [i for i, q in enumerate(regs) if q[0] in used]
    pick = (lambda: rng.choice(pref)) if pref and rng.random() < 0.8 else (lambda: rng.randrange(len(regs)))
    if r < 0.65:
        i = pick()
        del regs[i]
        return tuple(regs), 'missing'
    if r < 0.85:
        i = pick()
        c, n, rid, pet = regs[i]
        regs[i] = (c, n, 1000 + rid, pet)          # unregistered and registered again: a new registration
        return tuple(regs), 'reregistered'
    i = pick()
    c, n, rid, pet = regs[i]
    n2 = rng.choice([x for x in (0, 1, 2) if x != n])
    if any(q[0] == c and q[1] == n2 for q in regs):
        return tuple(regs), 'same'
    regs[i] = (c, n2, 2000 + rid, pet)
    return tuple(regs), 'moved'


def switch_registry(old, new):
    """turn the registry described by `old` into `new`; returns an undo list"""
    oldm = {(c, n): (rid, pet) for (c, n, rid, pet) in old}
    newm = {(c, n): (rid, pet) for (c, n, rid, pet) in new}
    for key, v in oldm.items():
        if newm.get(key) != v:
            optree.unregister_pytree_node(world.CUST[key[0]], namespace=world.ns_reg(key[1]))
    for key, v in newm.items():
        if oldm.get(key) != v:
            kw = {}
            if world.PET[v[1]] is not None:
                kw['path_entry_type'] = world.PET[v[1]]
            optree.register_pytree_node(world.CUST[key[0]], world.cust_flatten,
                                        world.cust_unflatten_for(world.CUST[key[0]]),
                                        namespace=world.ns_reg(key[1]), **kw)


def mode_ctx(rng):
    import contextlib
    if rng.random() < 0.5:
        return contextlib.nullcontext(), 'unchanged'
    n = rng.choice([0, 1, 2])
    flag = rng.random() < 0.7
    return optree.dict_insertion_ordered(flag, namespace=world.ns_reg(n)), 'switched'


def impl_pickle(cfg, o, regs2, label, rng, res, fresh):
    case = (9, cfg, o, regs2)
    w = World(cfg)
    w.__enter__()
    current = cfg[3]
    try:
        tree = realize(o, rng, {})
        kw = w.kw()
        f = attempt(lambda: optree.tree_flatten(tree, **kw))
        if f[0] != 0:
            return case, f
        ls, sp = f[1]
        proto = rng.choice(list(range(2, pickle.HIGHEST_PROTOCOL + 1)))
        how = rng.choice(['pickle', 'pickle', 'copy', 'deepcopy']) if label == 'same' else 'pickle'
        # the dict-order mode in force while dumping / loading may differ from the one the treespec
        # was flattened under: the treespec (original key order included) must not depend on it
        ctx_dump, ctx_load = mode_ctx(rng), mode_ctx(rng)
        res.count('dump_mode_%s' % ctx_dump[1])
        with ctx_dump[0]:
            data = pickle.dumps(sp, protocol=proto)
        state0 = (sp.__getstate__(), repr(sp), hash(sp))
        # an earlier load in this process, under the registry of the dumping side, whose result stays alive
        # across the registry change: what a later load returns must depend on the registry at that time only
        earlier = None
        if how == 'pickle' and rng.random() < 0.5:
            earlier = attempt(lambda: pickle.loads(data))
            res.count('earlier_load_kept_alive')
            if earlier[0] != 0 or earlier[1] != sp:
                res.fail('loading under the dumping registry failed or gave another treespec', case, str(earlier)[:200])
        switch_registry(current, regs2)
        current = regs2
        with ctx_load[0]:
            if how == 'copy':
                r = attempt(lambda: copy.copy(sp))
            elif how == 'deepcopy':
                r = attempt(lambda: copy.deepcopy(sp))
            else:
                r = attempt(lambda: pickle.loads(data))
        res.count('how_' + how)
        res.evaluations += 1
        if r[0] != 0:
            obs = (0, r, ())
            if label == 'same':
                res.fail('loading a pickled treespec with the same registrations raised', case, r)
        else:
            sp2 = r[1]
            fresh_sp = attempt(lambda: optree.tree_structure(tree, **kw))
            u = attempt(lambda: sp2.unflatten(ls))
            obs = (0, (0, world.abs_spec(sp2)),
                   (1 if sp2 == sp else 0,
                    (1 if sp2 == fresh_sp[1] else 0) if fresh_sp[0] == 0 else 2,
                    (0, abstract(u[1])) if u[0] == 0 else u))
            if label in ('missing', 'reregistered') and fresh_sp[0] == 0 and sp2 != fresh_sp[1]:
                res.fail('after the registry changed, a load that succeeds is not == a treespec flattened afresh '
                         '(a custom type is bound to a registration that is no longer in force)', case,
                         f'{label}: {sp2!r} vs {fresh_sp[1]!r}')
            if label == 'same':
                if not (sp2 == sp) or hash(sp2) != hash(sp):
                    res.fail('unpickled treespec is not == the original / hashes differently', case)
                if fresh_sp[0] == 0 and (sp2 != fresh_sp[1] or hash(sp2) != hash(fresh_sp[1])):
                    res.fail('unpickled treespec is not == a treespec flattened afresh', case)
                if repr(sp2) != repr(sp) or sp2.paths() != sp.paths() or sp2.accessors() != sp.accessors() \
                        or sp2.entries() != sp.entries() or sp2.children() != sp.children() \
                        or [repr(c) for c in sp2.children()] != [repr(c) for c in sp.children()] \
                        or sp2.namespace != sp.namespace or sp2.none_is_leaf != sp.none_is_leaf:
                    res.fail('unpickled treespec differs in repr / paths / accessors / entries / children / namespace', case,
                             f'{sp!r} vs {sp2!r}')
                if sp2.__getstate__() != sp.__getstate__():
                    res.fail('unpickled treespec differs in some node field', case)
                if u[0] != 0 or abstract(u[1]) != o:
                    res.fail('unpickled treespec unflattens to a different tree (key order included)', case)
            if (sp.__getstate__(), repr(sp), hash(sp)) != state0 and label == 'same':
                res.fail('pickling changed the original treespec', case)
        if fresh and label in ('same', 'missing') and how == 'pickle':
            env = dict(os.environ)
            cfg2 = (cfg[0], cfg[1], cfg[2], regs2, cfg[4], cfg[5])
            p = subprocess.run([sys.executable, '-c', FRESH_SCRIPT, sx.dump(cfg2)], input=data, env=env,
                               stdout=subprocess.PIPE, stderr=subprocess.PIPE, check=False)
            res.count('fresh_process')
            if p.returncode != 0:
                res.fail('fresh process crashed while loading', case, p.stderr.decode()[-500:])
            else:
                out, rp = p.stdout.decode().rstrip('\n').split('\t')
                got = sx.parse(out)
                want = obs[1]
                if got != want:
                    res.fail('a fresh process with the same registrations loads a different treespec', case,
                             f'{out[:300]}')
                elif got[0] == 0 and label == 'same' and rp != repr(sp).replace('\n', ' '):
                    res.fail('a fresh process loads a treespec with a different repr', case, rp[:200])
        return case, obs
    finally:
        switch_registry(current, cfg[3])
        w.__exit__(None, None, None)


# ---------------------------------------------------------------- cmd 23: validation of loaded node arrays
def real_state(nodes, nil, ns):
    """abstract node array (world.abs_spec format) -> the tuple PyTreeSpec.__setstate__ takes"""
    out = []
    for (kind, arity, nd, ent, cu, nl, nn, og) in nodes:
        t = nd[0]
        if t == 0:
            data = None
        elif t == 1:
            data = [world.real_key(k) for k in nd[1:]]
        elif t == 2:
            data = (world.FACTORIES[nd[1]], [world.real_key(k) for k in nd[2:]])
        elif t == 3:
            data = world.nt_class(nd[1], max(arity, 0)) if kind == 6 else world.STRUCTSEQ[nd[1]]
        elif t == 4:
            data = nd[1] if len(nd) > 1 else None
        else:
            data = (nd[1], nd[2])
        entries = None if ent == () else tuple(world.real_key(k) for k in ent[1:])
        ctype = None if cu == () else world.CUST[cu[0]]
        orig = None if og == () else [world.real_key(k) for k in og[1:]]
        out.append((kind, arity, data, entries, ctype, nl, nn, orig))
    return (tuple(out), bool(nil), world.NS_NAMES[ns])


def mutate_array(rng, nodes):
    """one or two edits of an abstract node array, staying inside what the wire format can express"""
    nodes = [list(n) for n in nodes]
    label = []
    for _ in range(rng.choice([1, 1, 2])):
        i = rng.randrange(len(nodes))
        n = nodes[i]
        r = rng.random()
        if r < 0.25:
            n[1] = max(0, n[1] + rng.choice([-1, 1, 2, 7]))
            label.append('arity')
        elif r < 0.45:
            n[5] = max(0, n[5] + rng.choice([-1, 1, 3, 1000]))
            label.append('num_leaves')
        elif r < 0.65:
            n[6] = max(0, n[6] + rng.choice([-1, 1, 3, 1000]))
            label.append('num_nodes')
        elif r < 0.75 and len(nodes) > 1:
            del nodes[i]
            label.append('drop_node')
        elif r < 0.82:
            nodes.insert(i, list(nodes[i]))
            label.append('dup_node')
        elif r < 0.9:
            # shorten (or lengthen) a key list / entries / original keys of some node that has one
            cands = [(j, fld) for j, m in enumerate(nodes) for fld in (2, 3, 7)
                     if isinstance(m[fld], tuple) and len(m[fld]) >= 1 and m[fld][0] in (1, 2)
                     and len(m[fld]) > (1 if m[fld][0] == 1 else 2)]
            if cands:
                j, fld = rng.choice(cands)
                v = nodes[j][fld]
                nodes[j][fld] = v[:-1] if rng.random() < 0.7 else v + ((0, 777),)
                label.append('keys_%d' % fld)
        else:
            # change the kind among kinds with the same payload shape
            k = n[0]
            swap = {3: 4, 4: 3, 5: 8, 1: 2, 2: 1, 7: 5}     # (a deque's maxlen None is None on the wire)
            if k in swap:
                n[0] = swap[k]
                label.append('kind')
    return tuple(tuple(n) for n in nodes), '+'.join(label) or 'none'


def run_validation(res, rng, n, limit):
    from . import c16
    items, cmds = [], []
    for i in range(n):
        cfg = gen.gen_cfg(rng, limit)
        g = gen.TreeGen(rng, world.STRUCTSEQ_ARITY, max_nodes=rng.choice([4, 10, 20]), max_depth=rng.choice([2, 4]),
                        max_arity=rng.choice([2, 3, 4]))
        o = g.tree(kinds=['custom', 'dict', 'ddict', 'odict', 'tuple', 'list', 'named', 'struct', 'deque', 'none'])
        with World(cfg) as w:
            f = attempt(lambda: optree.tree_flatten(realize(o, random.Random(i), {}), **w.kw()))
        if f[0] != 0:
            continue
        nodes, nil, ns = world.abs_spec(f[1][1])
        if ns not in (0, 1, 2):
            continue
        if rng.random() < 0.15:
            arr, label = nodes, 'unchanged'
        else:
            arr, label = mutate_array(rng, nodes)
        if not arr:
            continue
        items.append((cfg, nil, ns, arr, label))
        cmds.append((23, cfg, nil, ns, arr))
        res.count('forged_' + label.split('+')[0])

    def load(item):
        cfg, nil, ns, arr, label = item
        with World(cfg):
            st = real_state(arr, nil, ns)
            sp = optree.PyTreeSpec.__new__(optree.PyTreeSpec)
            r = attempt(lambda: sp.__setstate__(st))
            if r[0] != 0:
                return tuple(r)
            # accepted: the treespec must be usable
            for op in (repr, hash, lambda s: s.children(), lambda s: s.paths(), lambda s: s.entries(),
                       lambda s: s.unflatten(range(s.num_leaves))):
                try:
                    op(sp)
                except Exception:  # noqa: BLE001
                    pass
            return (0,)
    outs = c16.progress_forked(items, load, 60, res, 'loading a forged pickle state')
    mod = runner.run_model(cmds)
    for it, c, o, m in zip(items, cmds, outs, mod):
        if o is None or (isinstance(o, tuple) and o and o[0] == 'died'):
            continue
        if isinstance(o, tuple) and o and o[0] == 'raised':
            res.fail('loading a forged state raised outside the classified errors', repr(c)[:300], o)
            continue
        res.compare(c, tuple(o), m, 'cmd_validate (' + it[4] + ')')
        res.count('load_forged_%s' % ('accepted' if o == (0,) else 'rejected%s' % (o[1],)))


def run(res, tier, seed):
    rng = random.Random(seed * 1000003 + 11)
    limit = optree.MAX_RECURSION_DEPTH
    n = 1500 if tier == 'quick' else 30000
    nfresh = 60 if tier == 'quick' else 600
    cmds, obs = [], []
    for i in range(n):
        cfg = gen.gen_cfg(rng, limit)
        g = gen.TreeGen(rng, world.STRUCTSEQ_ARITY, max_nodes=rng.choice([6, 15, 30]),
                        max_depth=rng.choice([3, 5, 8]), max_arity=rng.choice([2, 4, 6]))
        o = g.tree(kinds=['custom', 'custom', 'dict', 'ddict', 'odict', 'tuple', 'list', 'named', 'struct', 'deque', 'none'])
        regs2, label = mutate_regs(rng, cfg[3], used_classes(o, set()))
        res.count('load_' + label)
        res.note_input((cfg, o, regs2), gen.obj_internal(o) >= 2)
        c, ob = impl_pickle(cfg, o, regs2, label, random.Random(rng.getrandbits(48)), res, fresh=(i < nfresh * 3 and i % 3 == 0))
        cmds.append(c)
        obs.append(ob)
    # several custom nodes of ONE registration with explicit entries: same arity and different entries,
    # with nodes of another arity in between (every node must keep its own entries through a pickle)
    for i in range(n // 10):
        cls = rng.randrange(0, 4)
        rns = rng.choice([0, 1])
        cfg = (rng.randrange(2), rns, 0, ((cls, rns, 1, rng.choice([0, 1, 2])),), (), limit)
        lid = [0]

        def leaf():
            lid[0] += 1
            return (0, lid[0])

        def cnode(a):
            return (1, (9, cls, rng.randrange(0, 3), (2, *gen.gen_keys(rng, a, 'str'))), *[leaf() for _ in range(a)])
        a = rng.choice([1, 2, 3])
        kids = [cnode(a), cnode(a)] + ([cnode(a + 1)] if rng.random() < 0.4 else []) + ([cnode(a)] if rng.random() < 0.5 else [])
        rng.shuffle(kids)
        o = (1, (1,), *kids) if rng.random() < 0.5 else (1, (9, cls, 0, (2, *gen.gen_keys(rng, len(kids), 'str'))), *kids)
        res.count('load_same_registration_many_entries')
        c, ob = impl_pickle(cfg, o, cfg[3], 'same', random.Random(rng.getrandbits(48)), res, fresh=(i % 10 == 0))
        cmds.append(c)
        obs.append(ob)
    mod = runner.run_model(cmds)
    for c, a, b in zip(cmds, obs, mod):
        res.compare(c, a, b, 'cmd_pickle')
        if a[0] == 0:
            res.count('load_%s' % ('ok' if a[1][0] == 0 else 'raises'))
    # protocols 0 and 1 (known finding K2)
    sp = optree.tree_structure({'a': (1, 2)})
    for proto in (0, 1):
        r = attempt(lambda: pickle.loads(pickle.dumps(sp, protocol=proto)))
        res.evaluations += 1
        if r[0] != 0 or r[1] != sp:
            res.fail('pickle protocol below 2 cannot pickle a treespec', f'protocol={proto}', f'{r} K2-protocol')
    for c in cmds[:3]:
        res.sample(sx.dump(c)[:500])
    run_validation(res, rng, 1500 if tier == 'quick' else 30000, limit)


if __name__ == '__main__':
    runner.main(__import__('harness.props.c11', fromlist=['x']))
