"""C11 — pickling a treespec preserves it exactly.
Correspondence: cmd 9 — flatten under one registry, pickle (protocols 2..HIGHEST, copy, deepcopy),
load under the same / a changed registry (missing registration, re-registered type, registration moved
between namespaces), in the same process and in a freshly spawned process.
Oracle: loaded == original, == a fresh flatten, equal hash, same repr/paths/accessors/entries/children,
same unflatten (incl. original dict key order); missing registration raises."""
import copy
import pickle
import random
import subprocess
import sys
import os

import optree

from .. import gen, runner, sx, world
from ..world import World, abstract, attempt, realize

PROP = 'C11'

FRESH_SCRIPT = r'''
import sys, pickle, json
sys.setrecursionlimit(100000)
from harness import world, sx
import optree
cfg = sx.parse(sys.argv[1])
data = sys.stdin.buffer.read()
with world.World(cfg) as w:
    r = world.attempt(lambda: pickle.loads(data))
    if r[0] == 0:
        sp = r[1]
        print(sx.dump((0, world.abs_spec(sp))), repr(sp).replace('\n', ' '), sep='\t')
    else:
        print(sx.dump(r), '', sep='\t')
'''


def used_classes(o, acc):
    if o[0] == 1:
        if o[1][0] == 9:
            acc.add(o[1][1])
        for c in o[2:]:
            used_classes(c, acc)
    return acc


def mutate_regs(rng, regs, used=()):
    """the registry of the loading side: (regs2, label)"""
    regs = list(regs)
    r = rng.random()
    if r < 0.45 or not regs:
        return tuple(regs), 'same'
    pref = [i for i, q in enumerate(regs) if q[0] in used]
    pick = (lambda: rng.choice(pref)) if pref and rng.random() < 0.8 else (lambda: rng.randrange(len(regs)))
    if r < 0.65:
        i = pick()
        del regs[i]
        return tuple(regs), 'missing'
    if r < 0.85:
        i = pick()
        c, n, rid, pet = regs[i]
        regs[i] = (c, n, 1000 + rid, pet)          # unregistered and registered again: a new registration
        return tuple(regs), 'reregistered'
    i = pick()
    c, n, rid, pet = regs[i]
    n2 = rng.choice([x for x in (0, 1, 2) if x != n])
    if any(q[0] == c and q[1] == n2 for q in regs):
        return tuple(regs), 'same'
    regs[i] = (c, n2, 2000 + rid, pet)
    return tuple(regs), 'moved'


def switch_registry(old, new):
    """turn the registry described by `old` into `new`; returns an undo list"""
    oldm = {(c, n): (rid, pet) for (c, n, rid, pet) in old}
    newm = {(c, n): (rid, pet) for (c, n, rid, pet) in new}
    for key, v in oldm.items():
        if newm.get(key) != v:
            optree.unregister_pytree_node(world.CUST[key[0]], namespace=world.ns_reg(key[1]))
    for key, v in newm.items():
        if oldm.get(key) != v:
            kw = {}
            if world.PET[v[1]] is not None:
                kw['path_entry_type'] = world.PET[v[1]]
            optree.register_pytree_node(world.CUST[key[0]], world.cust_flatten,
                                        world.cust_unflatten_for(world.CUST[key[0]]),
                                        namespace=world.ns_reg(key[1]), **kw)


def impl_pickle(cfg, o, regs2, label, rng, res, fresh):
    case = (9, cfg, o, regs2)
    w = World(cfg)
    w.__enter__()
    current = cfg[3]
    try:
        tree = realize(o, rng, {})
        kw = w.kw()
        f = attempt(lambda: optree.tree_flatten(tree, **kw))
        if f[0] != 0:
            return case, f
        ls, sp = f[1]
        proto = rng.choice(list(range(2, pickle.HIGHEST_PROTOCOL + 1)))
        how = rng.choice(['pickle', 'pickle', 'copy', 'deepcopy']) if label == 'same' else 'pickle'
        data = pickle.dumps(sp, protocol=proto)
        state0 = (sp.__getstate__(), repr(sp), hash(sp))
        switch_registry(current, regs2)
        current = regs2
        if how == 'copy':
            r = attempt(lambda: copy.copy(sp))
        elif how == 'deepcopy':
            r = attempt(lambda: copy.deepcopy(sp))
        else:
            r = attempt(lambda: pickle.loads(data))
        res.count('how_' + how)
        res.evaluations += 1
        if r[0] != 0:
            obs = (0, r, ())
            if label == 'same':
                res.fail('loading a pickled treespec with the same registrations raised', case, r)
        else:
            sp2 = r[1]
            fresh_sp = attempt(lambda: optree.tree_structure(tree, **kw))
            u = attempt(lambda: sp2.unflatten(ls))
            obs = (0, (0, world.abs_spec(sp2)),
                   (1 if sp2 == sp else 0,
                    (1 if sp2 == fresh_sp[1] else 0) if fresh_sp[0] == 0 else 2,
                    (0, abstract(u[1])) if u[0] == 0 else u))
            if label == 'same':
                if not (sp2 == sp) or hash(sp2) != hash(sp):
                    res.fail('unpickled treespec is not == the original / hashes differently', case)
                if fresh_sp[0] == 0 and (sp2 != fresh_sp[1] or hash(sp2) != hash(fresh_sp[1])):
                    res.fail('unpickled treespec is not == a treespec flattened afresh', case)
                if repr(sp2) != repr(sp) or sp2.paths() != sp.paths() or sp2.accessors() != sp.accessors() \
                        or sp2.entries() != sp.entries() or sp2.children() != sp.children() \
                        or [repr(c) for c in sp2.children()] != [repr(c) for c in sp.children()] \
                        or sp2.namespace != sp.namespace or sp2.none_is_leaf != sp.none_is_leaf:
                    res.fail('unpickled treespec differs in repr / paths / accessors / entries / children / namespace', case,
                             f'{sp!r} vs {sp2!r}')
                if sp2.__getstate__() != sp.__getstate__():
                    res.fail('unpickled treespec differs in some node field', case)
                if u[0] != 0 or abstract(u[1]) != o:
                    res.fail('unpickled treespec unflattens to a different tree (key order included)', case)
            if (sp.__getstate__(), repr(sp), hash(sp)) != state0 and label == 'same':
                res.fail('pickling changed the original treespec', case)
        if fresh and label in ('same', 'missing') and how == 'pickle':
            env = dict(os.environ)
            cfg2 = (cfg[0], cfg[1], cfg[2], regs2, cfg[4], cfg[5])
            p = subprocess.run([sys.executable, '-c', FRESH_SCRIPT, sx.dump(cfg2)], input=data, env=env,
                               stdout=subprocess.PIPE, stderr=subprocess.PIPE, check=False)
            res.count('fresh_process')
            if p.returncode != 0:
                res.fail('fresh process crashed while loading', case, p.stderr.decode()[-500:])
            else:
                out, rp = p.stdout.decode().rstrip('\n').split('\t')
                got = sx.parse(out)
                want = obs[1]
                if got != want:
                    res.fail('a fresh process with the same registrations loads a different treespec', case,
                             f'{out[:300]}')
                elif got[0] == 0 and label == 'same' and rp != repr(sp).replace('\n', ' '):
                    res.fail('a fresh process loads a treespec with a different repr', case, rp[:200])
        return case, obs
    finally:
        switch_registry(current, cfg[3])
        w.__exit__(None, None, None)


def run(res, tier, seed):
    rng = random.Random(seed * 1000003 + 11)
    limit = optree.MAX_RECURSION_DEPTH
    n = 1500 if tier == 'quick' else 30000
    nfresh = 60 if tier == 'quick' else 600
    cmds, obs = [], []
    for i in range(n):
        cfg = gen.gen_cfg(rng, limit)
        g = gen.TreeGen(rng, world.STRUCTSEQ_ARITY, max_nodes=rng.choice([6, 15, 30]),
                        max_depth=rng.choice([3, 5, 8]), max_arity=rng.choice([2, 4, 6]))
        o = g.tree(kinds=['custom', 'custom', 'dict', 'ddict', 'odict', 'tuple', 'list', 'named', 'struct', 'deque', 'none'])
        regs2, label = mutate_regs(rng, cfg[3], used_classes(o, set()))
        res.count('load_' + label)
        res.note_input((cfg, o, regs2), gen.obj_internal(o) >= 2)
        c, ob = impl_pickle(cfg, o, regs2, label, random.Random(rng.getrandbits(48)), res, fresh=(i < nfresh * 3 and i % 3 == 0))
        cmds.append(c)
        obs.append(ob)
    mod = runner.run_model(cmds)
    for c, a, b in zip(cmds, obs, mod):
        res.compare(c, a, b, 'cmd_pickle')
        if a[0] == 0:
            res.count('load_%s' % ('ok' if a[1][0] == 0 else 'raises'))
    # protocols 0 and 1 (known finding K2)
    sp = optree.tree_structure({'a': (1, 2)})
    for proto in (0, 1):
        r = attempt(lambda: pickle.loads(pickle.dumps(sp, protocol=proto)))
        res.evaluations += 1
        if r[0] != 0 or r[1] != sp:
            res.fail('pickle protocol below 2 cannot pickle a treespec', f'protocol={proto}', f'{r} K2-protocol')
    for c in cmds[:3]:
        res.sample(sx.dump(c)[:500])


if __name__ == '__main__':
    runner.main(__import__('harness.props.c11', fromlist=['x']))
