"""C12 — registry changes are namespace-isolated, atomic and reversible.
Correspondence: cmd 7 — every history runs in a forked child; after EVERY step the full observable
state (what flatten does with probe instances in every namespace x none_is_leaf, what
register_pytree_node.get says with and without a class) is compared with the model's.
Exhaustive: all histories of length 2 over the op universe (thorough: also length 3 over a reduced
universe); longer ones sampled.
Oracle (implementation only): engine view == Python view; a failing call changes nothing."""
import collections
import itertools
import json
import os
import random
import warnings

import optree

from .. import runner, sx, world

PROP = 'C12'

NSN = {0: '', 1: 'a', 2: 'b'}


def make_universe():
    class Plain0:
        def __init__(self, *c):
            self.c = list(c)

    class Plain1:
        def __init__(self, *c):
            self.c = list(c)
    NT0 = collections.namedtuple('NT0', 'p q')
    Struct0 = os.terminal_size
    return {(0, 0): Plain0, (0, 1): Plain1, (1, 0): NT0, (2, 0): Struct0, (3, 0): list, (4, 0): 42}


def instance(cls):
    if cls is os.terminal_size:
        return os.terminal_size((1, 2))
    if hasattr(cls, '_fields'):
        return cls(1, 2)
    return cls(1, 2)


def ns_arg(tag, n):
    if tag == 0:
        return world.GLOBAL
    if tag == 1:
        return NSN[n]
    if tag == 2:
        return ''
    return 7


def observe(uni):
    out = []
    for key in [(0, 0), (0, 1), (1, 0), (2, 0)]:
        cls = uni[key]
        inst = instance(cls)
        for n in (0, 1, 2):
            tags = []
            for nil in (False, True):
                sp = optree.tree_structure(inst, namespace=NSN[n], none_is_leaf=nil)
                node = sp.__getstate__()[0][-1]
                tags.append(node[2][1] if int(node[0]) == 0 else 0)
            eng = tags[0] if tags[0] == tags[1] else -1
            e = optree.register_pytree_node.get(cls, namespace=NSN[n] if n else world.GLOBAL)
            py = 0
            if e is not None and int(e.kind) == 0:
                py = e.flatten_func(inst)[1][1]
            allreg = optree.register_pytree_node.get(namespace=NSN[n] if n else world.GLOBAL)
            e2 = allreg.get(cls)
            a1 = a2 = 0
            if e2 is not None and int(e2.kind) == 0:
                t = e2.flatten_func(inst)[1][1]
                if e2.namespace == NSN[n]:
                    a1 = t
                else:
                    a2 = t
            out.append((eng, py, a1, a2))
    return tuple(out)


def run_history(we, ops):
    """in a forked child: returns the list of (outcome, observation) per step"""
    r, w = os.pipe()
    pid = os.fork()
    if pid == 0:
        os.close(r)
        res = []
        try:
            uni = make_universe()
            counter = [0]
            deco_used = set()
            if we:
                warnings.simplefilter('error')
            else:
                warnings.simplefilter('ignore')
            for op in ops:
                if op[0] == 0:
                    _, ct, cn, nt, nn, pet = op
                    cls = uni[(ct, cn)]
                    k = counter[0] + 1

                    def fl(x, k=k):
                        ch = tuple(x) if isinstance(x, tuple) else tuple(x.c)
                        return ch, ('tag', k)

                    def un(md, ch, cls=cls):
                        return cls(*ch) if cls is not os.terminal_size else cls(tuple(ch))
                    kw = {} if pet else {'path_entry_type': int}
                    deco = False
                    if len(res) % 2 == 1 and isinstance(cls, type) and cls not in deco_used:
                        # every other step registers through the class-decorator form, which must be the same thing
                        # (once per class: the decorator form looks tree_flatten up on the class at call time)
                        deco_used.add(cls)
                        try:
                            cls.tree_flatten = fl
                            cls.tree_unflatten = classmethod(lambda c, md, ch, un=un: un(md, ch))
                            deco = True
                        except (TypeError, AttributeError):
                            deco = False
                    if deco:
                        o = world.attempt(lambda: optree.register_pytree_node_class(cls, namespace=ns_arg(nt, nn), **kw))
                        if o[0] == 0 and o[1] is not cls:
                            o = (1, 99, 'register_pytree_node_class did not return the class')
                    else:
                        o = world.attempt(lambda: optree.register_pytree_node(cls, fl, un, namespace=ns_arg(nt, nn), **kw))
                    if o[0] == 0:
                        counter[0] = k
                        o = (0,)
                else:
                    _, ct, cn, nt, nn = op
                    o = world.attempt(lambda: optree.unregister_pytree_node(uni[(ct, cn)], namespace=ns_arg(nt, nn)))
                    if o[0] == 0:
                        o = (0,)
                res.append([list(o), [list(x) for x in observe(uni)]])
            os.write(w, json.dumps(res).encode())
        except BaseException as e:  # noqa: BLE001
            os.write(w, json.dumps({'error': repr(e)}).encode())
        os._exit(0)
    os.close(w)
    data = b''
    while True:
        chunk = os.read(r, 65536)
        if not chunk:
            break
        data += chunk
    os.close(r)
    _, status = os.waitpid(pid, 0)
    if not data:
        return {'error': f'child died with status {status}'}
    return json.loads(data)


def to_tuple(x):
    if isinstance(x, list):
        return tuple(to_tuple(y) for y in x)
    return x


def op_universe(full=False, small=False):
    classes = [(0, 0), (1, 0), (2, 0), (3, 0), (4, 0)] + ([(0, 1)] if full else [])
    nss = [(0, 0), (1, 1), (1, 2), (2, 0), (3, 0)]
    if small:
        # two registrable classes, one built-in, one non-class; global / two named / invalid namespaces
        classes = [(0, 0), (1, 0), (3, 0)]
        nss = [(0, 0), (1, 1), (1, 2), (2, 0)]
    ops = []
    for c in classes:
        for n in nss:
            ops.append((0, c[0], c[1], n[0], n[1], 1))
            ops.append((1, c[0], c[1], n[0], n[1]))
    ops += [(0, 0, 0, 1, 1, 0), (0, 1, 0, 0, 0, 0), (0, 3, 0, 1, 1, 0)]
    return ops


def check_history(res, we, ops, label):
    cmd = (7, we, tuple(ops))
    got = run_history(we, ops)
    if isinstance(got, dict):
        res.fail('registry history crashed the process or the harness', cmd, got['error'])
        return cmd, None
    obs = to_tuple(got)
    # oracle: engine view == python view at every step; failed step changes nothing observable
    prev = None
    res.evaluations += 1
    for i, (out, ob) in enumerate(obs):
        for (eng, py, a1, a2) in ob:
            if eng == -1:
                res.fail('the two none_is_leaf variants of the registry disagree', cmd, f'step {i}')
            if eng != py:
                res.fail('register_pytree_node.get(cls, namespace) does not describe what flattening does', cmd, f'step {i}: {ob}')
            if (a1 or a2) != py:
                res.fail('register_pytree_node.get(namespace=N)[cls] does not describe what flattening does', cmd, f'step {i}: {ob}')
        if out != (0,) and prev is not None and ob != prev:
            res.fail('a call that raised changed the registry', cmd, f'step {i}: {out}')
        if out != (0,) and prev is None and any(x != (0, 0, 0, 0) for x in ob):
            res.fail('a call that raised changed the registry', cmd, f'step {i}: {out}')
        prev = ob
    res.count(label)
    return cmd, obs


def run(res, tier, seed):
    rng = random.Random(seed * 1000003 + 12)
    uni = op_universe()
    hist = []
    depth = 2
    for we in (0, 1):
        for ops in itertools.product(uni, repeat=depth):
            hist.append((we, ops, f'exhaustive_len{depth}'))
    small = op_universe(small=True)
    if tier != 'quick':
        # length 3 over the reduced universe (the full one is 53^3 x 2 = 3e5 forked processes: > 1 h)
        for we in (0, 1):
            for ops in itertools.product(small, repeat=3):
                hist.append((we, ops, 'exhaustive_len3_small_universe'))
    full = op_universe(True)
    for i in range(600 if tier == 'quick' else 20000):
        n = rng.randrange(3, 9)
        # bias towards valid operations so that state builds up
        valid = [o for o in full if o[1] in (0, 1, 2) and o[3] in (0, 1) and (o[0] == 1 or o[5] == 1)]
        ops = tuple(rng.choice(valid) if rng.random() < 0.8 else rng.choice(full) for _ in range(n))
        hist.append((rng.randrange(2), ops, 'sampled_long'))
    cmds, obs = [], []
    for we, ops, label in hist:
        c, o = check_history(res, we, ops, label)
        if o is not None:
            cmds.append(c)
            obs.append(o)
            res.note_input(c, len(ops) >= 2)
    mod = runner.run_model(cmds)
    for c, a, b in zip(cmds, obs, mod):
        res.compare(c, a, b, 'cmd_registry_history')
    res.exhaustive = False
    res.notes.append(f'all {len(uni)}^{depth} x 2 (warnings off / as errors) histories of length {depth} were enumerated'
                     + (f', and all {len(small)}^3 x 2 of length 3 over the reduced universe' if tier != 'quick' else '')
                     + '; longer histories are sampled')
    for c in cmds[:1] + cmds[-2:]:
        res.sample(sx.dump(c)[:400])


if __name__ == '__main__':
    runner.main(__import__('harness.props.c12', fromlist=['x']))
