"""C15 — a failing user callback makes the enclosing operation fail cleanly.

Correspondence: cmd 14 (flatten with a fault at the k-th callback: predicate calls and custom flatten
calls, counted in engine order, for flatten / flatten_with_path / tree_iter), cmd 15 (what the key sort
does when comparisons raise).

Oracles on the implementation (fault enumeration): for every operation of the public API that runs
user code, for every k up to the number of callback invocations of a fault-free run, the k-th
invocation raises a fresh exception object; then
  * exactly that object propagates (identity), never another type, never a result;
  * operands, registry and dict-order mode are what they were (identity-level snapshot);
  * reference counts of every operand object are what they were;
  * the same call repeated without a fault gives what a fault-free call gave before.
"""
import gc
import pickle
import random
import sys
from collections import OrderedDict, defaultdict, deque, namedtuple

import optree

from .. import gen, runner, sx, world
from ..world import World, abstract, attempt, realize, UserExc, err_code

PROP = 'C15'
NAMESPACES = ('', 'a', 'b', 'c')


# ---------------------------------------------------------------- the injector
class Injector:
    def __init__(self):
        self.n = 0
        self.k = None
        self.boom = None
        self.kind = None

    def reset(self, k):
        self.n = 0
        self.k = k
        self.boom = None
        self.kind = None

    def tick(self, kind, *_):
        self.n += 1
        if self.k is not None and self.n == self.k:
            self.boom = UserExc(99)
            self.kind = kind
            raise self.boom


INJ = Injector()


class FKeyA:
    """dict key whose every special method is a callback"""
    __slots__ = ('v',)

    def __init__(self, v):
        self.v = v

    def __hash__(self):
        INJ.tick('key.__hash__')
        return hash((type(self).__name__, self.v))

    def __eq__(self, other):
        INJ.tick('key.__eq__')
        return type(other) is type(self) and other.v == self.v

    def __lt__(self, other):
        INJ.tick('key.__lt__')
        if type(other) is not type(self):
            return NotImplemented
        return self.v < other.v

    def __repr__(self):
        INJ.tick('key.__repr__')
        return f'{type(self).__name__}({self.v})'

    def __reduce__(self):
        INJ.tick('key.__reduce__')
        return (type(self), (self.v,))


class FKeyB(FKeyA):
    __slots__ = ()


class FKeyU(FKeyA):
    """never comparable, not even with itself: third stage of the key sort"""
    __slots__ = ()

    def __lt__(self, other):
        INJ.tick('key.__lt__')
        return NotImplemented


class FMeta:
    """metadata of a custom node"""

    def __init__(self, v):
        self.v = v

    def __hash__(self):
        INJ.tick('meta.__hash__')
        return hash(self.v)

    def __eq__(self, other):
        INJ.tick('meta.__eq__')
        return type(other) is FMeta and other.v == self.v

    def __repr__(self):
        INJ.tick('meta.__repr__')
        return f'FMeta({self.v})'

    def __reduce__(self):
        INJ.tick('meta.__reduce__')
        return (FMeta, (self.v,))


class FNode:
    """custom node type whose flatten / unflatten are callbacks and whose metadata is an FMeta"""

    def __init__(self, children, v):
        self.children = list(children)
        self.v = v

    def __repr__(self):
        return f'FNode({self.children!r}, {self.v})'


def fnode_flatten(x):
    INJ.tick('flatten')
    # odd nodes hand out a fresh container (then the children themselves carry the engine's references),
    # even nodes their stored list
    ch = tuple(x.children) if isinstance(x.v, int) and x.v % 2 else x.children
    return ch, FMeta(x.v), tuple(range(len(x.children)))


def fnode_unflatten(md, children):
    INJ.tick('unflatten')
    return FNode(children, md.v)


Pt = namedtuple('Pt', ['x', 'y'])


class Opq:
    def __init__(self, i):
        self.i = i

    def __repr__(self):
        return f'Opq({self.i})'


# ---------------------------------------------------------------- snapshots
ATOMS = (int, str, float, bool, type(None), bytes, type, type(Ellipsis))


def children_of(x):
    if isinstance(x, (list, tuple, deque)):
        return list(x)
    if isinstance(x, dict):
        out = []
        for k, v in x.items():
            out.append(k)
            out.append(v)
        return out
    if isinstance(x, (FNode, world.CustBase)):
        # the stored children container is itself an operand object: a flatten function that hands it
        # out makes the engine hold a reference to it while the children are traversed
        box = [x.children] if isinstance(x.children, (list, tuple)) else []
        return box + list(x.children)
    return []


def objects_of(roots):
    """every heap object reachable through container structure (operands whose refcount we watch)"""
    seen, out, stack = set(), [], list(roots)
    while stack:
        x = stack.pop()
        if isinstance(x, ATOMS) or id(x) in seen:
            continue
        seen.add(id(x))
        out.append(x)
        stack.extend(children_of(x))
    return out


def snap(x, depth=0):
    """identity-level snapshot of an operand: same objects in the same places in the same order"""
    if depth > 50:
        return ('deep',)
    if isinstance(x, ATOMS):
        return ('a', type(x).__name__, x if not isinstance(x, type) else x.__qualname__)
    if isinstance(x, optree.PyTreeSpec):
        return ('spec', id(x), canon(x.__getstate__(), depth + 1))
    if isinstance(x, dict):
        extra = (id(x.default_factory),) if isinstance(x, defaultdict) else ()
        return ('d', type(x).__name__, id(x), extra, tuple((id(k), snap(v, depth + 1)) for k, v in x.items()))
    if isinstance(x, deque):
        return ('q', id(x), x.maxlen, tuple(snap(v, depth + 1) for v in x))
    if isinstance(x, (list, tuple)):
        return ('s', type(x).__name__, id(x), tuple(snap(v, depth + 1) for v in x))
    if isinstance(x, (FNode, world.CustBase)):
        return ('c', type(x).__name__, id(x), tuple(snap(v, depth + 1) for v in x.children))
    if isinstance(x, (FKeyA, FMeta)):
        return ('k', type(x).__name__, id(x), x.v)
    return ('o', id(x))


def canon(x, depth=0):
    """value-level description of a result (two fault-free runs must agree on it)"""
    if depth > 60:
        return ('deep',)
    if isinstance(x, ATOMS):
        return ('a', type(x).__name__, x if not isinstance(x, type) else x.__qualname__)
    if isinstance(x, optree.PyTreeSpec):
        return ('spec', canon(x.__getstate__(), depth + 1))
    if isinstance(x, dict):
        extra = (getattr(x.default_factory, '__name__', None),) if isinstance(x, defaultdict) else ()
        return ('d', type(x).__name__, extra, tuple((canon(k, depth + 1), canon(v, depth + 1)) for k, v in x.items()))
    if isinstance(x, deque):
        return ('q', x.maxlen, tuple(canon(v, depth + 1) for v in x))
    if isinstance(x, (list, tuple)):
        return ('s', type(x).__name__, tuple(canon(v, depth + 1) for v in x))
    if isinstance(x, FNode):
        return ('c', 'FNode', x.v, tuple(canon(v, depth + 1) for v in x.children))
    if isinstance(x, world.CustBase):
        return ('c', type(x).__name__, x.meta, tuple(canon(v, depth + 1) for v in x.children))
    if isinstance(x, (FKeyA, FMeta)):
        return ('k', type(x).__name__, x.v)
    if isinstance(x, Opq):
        return ('o', x.i)
    if isinstance(x, world.Opaque):
        return ('o', repr(x))
    if isinstance(x, BaseException):
        return ('exc',) + tuple(err_code(x)) + (type(x).__name__,)
    if isinstance(x, (optree.PyTreeAccessor, optree.PyTreeEntry)):
        return ('acc', repr(x))
    if isinstance(x, optree.PyTreeKind):
        return ('kind', int(x))
    if callable(x):
        return ('fn', getattr(x, '__qualname__', '?'))
    return ('r', type(x).__name__)


def global_state():
    reg = []
    for ns in NAMESPACES:
        d = optree.register_pytree_node.get(namespace=ns)
        reg.append(tuple((t.__qualname__, id(e)) for t, e in d.items()))
    mode = tuple(optree.registry._C.is_dict_insertion_ordered(ns, False) for ns in NAMESPACES)
    return (tuple(reg), mode)


# ---------------------------------------------------------------- scenarios
def leaf(i):
    return Opq(i)


def tree_plain():
    return {'b': (leaf(1), [leaf(2), None]), 'a': FNode([leaf(3), (leaf(4),)], 7),
            'c': OrderedDict([('z', leaf(5)), ('y', deque([leaf(6)], maxlen=3))]),
            'd': defaultdict(list, {'k': Pt(leaf(7), FNode([], 1))}),
            'e': FNode([leaf(8), FNode([leaf(9), [leaf(10)]], 3)], 2)}


def tree_keys():
    # mixed classes: stage 1 of the key sort fails with TypeError, stage 2 compares within a class
    return {FKeyB(2): leaf(1), FKeyA(3): [leaf(2), leaf(3)], FKeyA(1): (leaf(4),), 5: leaf(5),
            FKeyB(1): {FKeyA(9): leaf(6), FKeyA(4): leaf(7)}}


def tree_keys_same():
    # one class: stage 1 sorts
    return {FKeyA(3): leaf(1), FKeyA(1): leaf(2), FKeyA(2): (leaf(3), leaf(4))}


def tree_keys_unsortable():
    # (no raising keys inside an OrderedDict: CPython's own OrderedDict.values() turns an exception
    # raised by a key's __hash__ into KeyError before optree sees anything)
    return OrderedDict([('u', {FKeyU(2): leaf(1)}), ('s', {FKeyU(1): leaf(2), FKeyU(0): leaf(3), 4: leaf(4)})])


def pred_tick(o):
    INJ.tick('is_leaf')
    return isinstance(o, Opq) or type(o) is deque


def fn_tick(*xs):
    INJ.tick('fn')
    return xs[0] if len(xs) == 1 else xs


def fn_tick_p(p, *xs):
    INJ.tick('fn')
    return xs[0]


def scenarios():
    """name -> (build() -> env dict, op(env) -> result). build runs with the injector disarmed."""
    S = {}

    def add(name, build, op):
        S[name] = (build, op)

    def trees(mk):
        def b():
            t = mk()
            return {'t': t, 't2': mk(), 'spec': optree.tree_structure(t), 'leaves': optree.tree_leaves(t)}
        return b

    for tname, mk in (('plain', tree_plain), ('keys', tree_keys), ('keys1', tree_keys_same),
                      ('keysU', tree_keys_unsortable)):
        B = trees(mk)
        kw = {'is_leaf': pred_tick}
        add(f'{tname}:tree_flatten', B, lambda e: optree.tree_flatten(e['t'], **kw))
        add(f'{tname}:tree_flatten(no pred)', B, lambda e: optree.tree_flatten(e['t']))
        add(f'{tname}:tree_flatten_with_path', B, lambda e: optree.tree_flatten_with_path(e['t'], **kw))
        add(f'{tname}:tree_flatten_with_accessor', B, lambda e: optree.tree_flatten_with_accessor(e['t'], **kw))
        add(f'{tname}:tree_iter', B, lambda e: list(optree.tree_iter(e['t'], **kw)))
        add(f'{tname}:tree_leaves', B, lambda e: optree.tree_leaves(e['t'], **kw))
        add(f'{tname}:tree_structure', B, lambda e: optree.tree_structure(e['t'], **kw))
        add(f'{tname}:tree_paths', B, lambda e: optree.tree_paths(e['t'], **kw))
        add(f'{tname}:tree_accessors', B, lambda e: optree.tree_accessors(e['t'], **kw))
        add(f'{tname}:tree_is_leaf', B, lambda e: optree.tree_is_leaf(e['t'], **kw))
        add(f'{tname}:all_leaves', B, lambda e: optree.all_leaves([e['t']], **kw))
        add(f'{tname}:tree_flatten_one_level', B, lambda e: optree.tree_flatten_one_level(e['t'], **kw))
        add(f'{tname}:tree_map', B, lambda e: optree.tree_map(fn_tick, e['t'], e['t2'], **kw))
        add(f'{tname}:tree_map_', B, lambda e: optree.tree_map_(fn_tick, e['t'], e['t2'], **kw))
        add(f'{tname}:tree_map_with_path', B, lambda e: optree.tree_map_with_path(fn_tick_p, e['t'], e['t2'], **kw))
        add(f'{tname}:tree_map_with_accessor', B,
            lambda e: optree.tree_map_with_accessor(fn_tick_p, e['t'], e['t2'], **kw))
        add(f'{tname}:tree_broadcast_map', B, lambda e: optree.tree_broadcast_map(fn_tick, e['t'], e['t2']))
        add(f'{tname}:tree_transpose_map', B,
            lambda e: optree.tree_transpose_map(lambda x: (INJ.tick('fn'), {'p': x, 'q': (x,)})[1], e['t']))
        add(f'{tname}:tree_reduce', B,
            lambda e: optree.tree_reduce(lambda a, b: (INJ.tick('fn'), a)[1], e['t'], **kw))
        add(f'{tname}:tree_max', B,
            lambda e: optree.tree_max(e['t'], key=lambda x: (INJ.tick('fn'), getattr(x, 'i', 0))[1], **kw))
        add(f'{tname}:tree_all', B, lambda e: optree.tree_all(e['t'], **kw))
        add(f'{tname}:tree_replace_nones', B, lambda e: optree.tree_replace_nones(leaf(0), e['t']))
        add(f'{tname}:tree_broadcast_prefix', B, lambda e: optree.tree_broadcast_prefix(e['t'], e['t2'], **kw))
        add(f'{tname}:broadcast_prefix', B, lambda e: optree.broadcast_prefix(e['t'], e['t2'], **kw))
        add(f'{tname}:tree_broadcast_common', B, lambda e: optree.tree_broadcast_common(e['t'], e['t2'], **kw))
        add(f'{tname}:broadcast_common', B, lambda e: optree.broadcast_common(e['t'], e['t2'], **kw))
        add(f'{tname}:prefix_errors', B, lambda e: [str(f('x')) for f in optree.prefix_errors(e['t'], e['t2'], **kw)])
        add(f'{tname}:prefix_errors(mismatch)', B,
            lambda e: [str(f('x')) for f in optree.prefix_errors(e['t'], {'other': 1, FKeyA(1): 2}, **kw)])
        add(f'{tname}:tree_transpose', B,
            lambda e: optree.tree_transpose(e['spec'], optree.tree_structure((0, 0)),
                                            optree.tree_map(lambda x: (x, x), e['t'])))
        add(f'{tname}:tree_unflatten', B, lambda e: optree.tree_unflatten(e['spec'], e['leaves']))
        add(f'{tname}:spec.unflatten(iter)', B, lambda e: e['spec'].unflatten(iter(e['leaves'])))
        add(f'{tname}:spec.flatten_up_to', B, lambda e: e['spec'].flatten_up_to(e['t2']))
        add(f'{tname}:spec.flatten_up_to(mismatch)', B,
            lambda e: e['spec'].flatten_up_to({FKeyA(77): 1, 'q': 2}))
        add(f'{tname}:spec.traverse', B,
            lambda e: e['spec'].traverse(e['leaves'], lambda n: (INJ.tick('f_node'), n)[1],
                                         lambda l: (INJ.tick('f_leaf'), l)[1]))
        add(f'{tname}:spec.walk', B,
            lambda e: e['spec'].walk(e['leaves'], lambda tp, d, ch: (INJ.tick('f_node'), tuple(ch))[1],
                                     lambda l: (INJ.tick('f_leaf'), l)[1]))
        add(f'{tname}:hash(spec)', B, lambda e: hash(e['spec']))
        add(f'{tname}:spec==spec', B, lambda e: (e['spec'] == optree.tree_structure(e['t2']), e['spec'] != e['spec']))
        add(f'{tname}:repr(spec)', B, lambda e: (repr(e['spec']), str(e['spec'])))
        add(f'{tname}:spec.is_prefix', B,
            lambda e: (e['spec'].is_prefix(optree.tree_structure(e['t2'])), e['spec'].is_suffix(e['spec'], strict=True)))
        add(f'{tname}:spec.compose', B, lambda e: e['spec'].compose(optree.tree_structure(e['t2'])))
        add(f'{tname}:spec.broadcast_to_common_suffix', B,
            lambda e: e['spec'].broadcast_to_common_suffix(optree.tree_structure(e['t2'])))
        add(f'{tname}:spec.transform', B,
            lambda e: e['spec'].transform(lambda s: (INJ.tick('f_node'), s)[1], lambda s: (INJ.tick('f_leaf'), s)[1]))
        add(f'{tname}:spec inspection', B,
            lambda e: (e['spec'].paths(), e['spec'].accessors(), e['spec'].entries(), e['spec'].children(),
                       e['spec'].one_level(), e['spec'].num_leaves))
        add(f'{tname}:pickle', B, lambda e: pickle.loads(pickle.dumps(e['spec'])))
        add(f'{tname}:accessor call', B, lambda e: [a(e['t']) for a in e['spec'].accessors()])
        add(f'{tname}:treespec_dict', B,
            lambda e: optree.treespec_dict({FKeyA(1): e['spec'], FKeyB(0): optree.treespec_leaf(), 3: e['spec']}))
        add(f'{tname}:treespec_from_collection', B,
            lambda e: optree.treespec_from_collection({FKeyA(1): e['spec'], 'x': [e['spec']]}))
        add(f'{tname}:tree_flatten(insertion ordered)', B, lambda e: _ins_flatten(e['t']))
    return S


def _ins_flatten(t):
    with optree.dict_insertion_ordered(True, namespace='a'):
        return optree.tree_flatten(t, is_leaf=pred_tick, namespace='a')


def enumerate_faults(res, name, build, op, maxk):
    INJ.reset(None)
    env = build()
    ops_objs = objects_of(list(env.values()))
    INJ.reset(None)
    r0 = attempt(lambda: op(env))
    total = INJ.n
    c0 = canon(r0[1]) if r0[0] == 0 else r0
    del r0
    res.count('scenarios')
    res.count('callbacks_total', total)
    if total == 0:
        res.count('scenarios_without_callbacks')
        return
    gc.collect()
    s0 = tuple(snap(v) for v in env.values())
    g0 = global_state()
    ks = list(range(1, total + 1))
    if len(ks) > maxk:
        rng = random.Random(hash(name) & 0xffff)
        ks = sorted(set(ks[:maxk // 2] + rng.sample(ks, maxk // 2) + [total]))
    for k in ks:
        gc.collect()
        rc0 = [sys.getrefcount(o) for o in ops_objs]
        INJ.reset(k)
        raised, result = None, None
        try:
            result = op(env)
        except BaseException as e:  # noqa: BLE001
            raised = e
        boom, kind = INJ.boom, INJ.kind
        INJ.reset(None)
        res.evaluations += 1
        case = f'{name} k={k}/{total} callback={kind}'
        if boom is None:
            # the run made fewer callbacks than the reference run: nothing was injected
            res.count('fault_not_reached')
            raised = result = None
            continue
        res.count('fault_' + str(kind))
        if raised is None:
            res.fail('a callback raised but the operation returned a result (exception swallowed)', case,
                     repr(canon(result))[:300])
        elif raised is not boom:
            res.fail('a callback raised but a different exception reached the caller', case,
                     f'{type(raised).__name__}: {raised}')
        if isinstance(raised, (SystemError, optree._C.InternalError)):
            res.fail('internal error after a failing callback', case, repr(raised))
        raised = result = boom = None
        gc.collect()
        rc1 = [sys.getrefcount(o) for o in ops_objs]
        if rc1 != rc0:
            bad = [(type(o).__name__, a, b) for o, a, b in zip(ops_objs, rc0, rc1) if a != b]
            res.fail('reference counts of the operands changed across a failed operation', case, bad[:5])
        if tuple(snap(v) for v in env.values()) != s0:
            res.fail('an operand was modified by a failed operation', case)
        if global_state() != g0:
            res.fail('registry or dict-order mode changed across a failed operation', case)
        r2 = attempt(lambda: op(env))
        c2 = canon(r2[1]) if r2[0] == 0 else r2
        del r2
        if c2 != c0:
            res.fail('the same call after a failed one differs from what a fault-free call gave', case,
                     f'{repr(c2)[:400]} vs {repr(c0)[:400]}')


# ---------------------------------------------------------------- correspondence: cmd 14
def impl_fault(cfg, t, k, rng, which):
    with World(cfg) as w:
        tree = realize(t, rng, {})
        kw = w.kw()
        base = kw.get('is_leaf')
        if base is not None:
            kw['is_leaf'] = lambda o: (INJ.tick('is_leaf'), base(o))[1]
        world.HOOK = INJ.tick
        INJ.reset(k if k else None)
        try:
            if which == 0:
                r = attempt(lambda: optree.tree_flatten(tree, **kw))
                ok = (lambda v: (v[0], v[1].num_nodes))
            elif which == 1:
                r = attempt(lambda: optree.tree_flatten_with_path(tree, **kw))
                ok = (lambda v: (v[1], v[2].num_nodes))
            else:
                r = attempt(lambda: list(optree.tree_iter(tree, **kw)))
                ok = (lambda v: (v, None))
        finally:
            world.HOOK = None
            n = INJ.n
            boom = INJ.boom
            INJ.reset(None)
        if r[0] == 0:
            ls, nn = ok(r[1])
            return (0, tuple(abstract(x) for x in ls), n, nn)
        return r


def run_correspondence(res, tier, seed):
    rng = random.Random(seed * 1000003 + 15)
    limit = optree.MAX_RECURSION_DEPTH
    n = 500 if tier == 'quick' else 8000
    cmds, obs = [], []
    for i in range(n):
        cfg = list(gen.gen_cfg(rng, limit))
        if rng.random() < 0.6 and cfg[2] == 0:
            cfg[2] = rng.choice([1, 2, 3, 4, 5])
        cfg = tuple(cfg)
        g = gen.TreeGen(rng, world.STRUCTSEQ_ARITY, max_nodes=rng.choice([6, 12, 25]),
                        max_depth=rng.choice([3, 5]), max_arity=rng.choice([2, 3, 4]),
                        malformed=rng.random() < 0.15)
        t = g.tree()
        r0 = impl_fault(cfg, t, 0, random.Random(i), 0)
        total = r0[2] if r0[0] == 0 else 6
        ks = [0] + sorted(set(rng.randrange(1, total + 2) for _ in range(4)))
        res.note_input((cfg, t), total >= 2)
        res.count('callbacks_%s' % ('0' if total == 0 else '1-5' if total <= 5 else '6+'))
        for k in ks:
            case = (14, cfg, t, k)
            o = None
            for which in (0, 1, 2):
                if which != 0 and r0[0] != 0:
                    # a tree that fails without any fault (malformed custom return, too deep): the
                    # other traversals meet that error and the injected one in another order (K1 / K3)
                    continue
                ob = impl_fault(cfg, t, k, random.Random(i), which)
                if ob[0] == 0 and which == 2:
                    ob = (0, ob[1], ob[2], o[3] if o and o[0] == 0 else ob[3])
                if o is None:
                    o = ob
                elif ob != o:
                    res.evaluations += 1
                    res.fail('the traversals disagree under a fault at the k-th callback', case,
                             f'which={which}: {sx.dump(ob)[:300]} vs {sx.dump(o)[:300]}')
            cmds.append(case)
            obs.append(o)
            res.count('fault_outcome_%s' % ('ok' if o[0] == 0 else 'injected' if o == (1, 10, 99) else 'other_error'))
    mod = runner.run_model(cmds)
    for c, a, b in zip(cmds, obs, mod):
        res.compare(c, a, b, 'cmd_fault')
    for c in cmds[:3]:
        res.sample(sx.dump(c)[:400])


# ---------------------------------------------------------------- correspondence: cmd 15
class SKey:
    """key whose comparison with a key of its own class behaves as configured"""
    mode = 0     # 0 compare, 1 TypeError, >=2 raise UserExc(mode)
    __slots__ = ('v',)

    def __init__(self, v):
        self.v = v

    def __hash__(self):
        return hash((type(self).__name__, self.v))

    def __eq__(self, other):
        return type(other) is type(self) and other.v == self.v

    def __lt__(self, other):
        if type(other) is not type(self):
            return NotImplemented
        m = type(self).mode
        if m == 0:
            return self.v < other.v
        if m == 1:
            return NotImplemented
        raise UserExc(m)

    def __repr__(self):
        return f'{type(self).__name__}({self.v})'


class SKeyA(SKey):
    __slots__ = ()


class SKeyB(SKey):
    __slots__ = ()


def run_sort_faults(res):
    cmds, obs = [], []
    for s1 in (0, 1, 5):
        for s2 in (0, 1, 6):
            # stage 1 raises TypeError exactly when two classes are mixed (first comparison is across
            # classes); with one class stage 1 behaves as configured for that class
            if s1 == 1:
                SKeyA.mode = SKeyB.mode = s2
                keys = [SKeyB(0), SKeyA(2), SKeyA(1), SKeyB(3)]
                orders = {1: None, 2: [SKeyA(1), SKeyA(2), SKeyB(0), SKeyB(3)], 3: keys}
            else:
                SKeyA.mode = s1
                keys = [SKeyA(2), SKeyA(3), SKeyA(1)]
                orders = {1: [SKeyA(1), SKeyA(2), SKeyA(3)], 2: None, 3: keys}
            d = {k: i for i, k in enumerate(keys)}
            case = (15, s1, s2)
            for name, f in (('tree_flatten', lambda: list(optree.tree_structure(d).entries())),
                            ('tree_flatten_with_path', lambda: [p[0] for p in optree.tree_paths(d)]),
                            ('tree_iter+map', lambda: list(optree.tree_map(lambda x: x, d))),
                            ('total_order_sorted', lambda: optree.utils.total_order_sorted(list(d)))):
                r = attempt(f)
                if r[0] == 0:
                    code = [c for c, o in orders.items() if o is not None and list(r[1]) == o]
                    if name == 'tree_iter+map':
                        # the rebuilt dict keeps insertion order; nothing to read off
                        continue
                    o = (0, code[0]) if code else (0, 99)
                else:
                    o = r
                cmds.append(case)
                obs.append(o)
                res.count('sort_' + ('raise' if o[0] else 'order%d' % o[1]))
            SKeyA.mode = SKeyB.mode = 0
    mod = runner.run_model(cmds)
    for c, a, b in zip(cmds, obs, mod):
        res.compare(c, a, b, 'cmd_sort_fault')


def run(res, tier, seed):
    optree.register_pytree_node(FNode, fnode_flatten, fnode_unflatten, namespace=world.GLOBAL)
    run_sort_faults(res)
    maxk = 40 if tier == 'quick' else 400
    for name, (build, op) in scenarios().items():
        enumerate_faults(res, name, build, op, maxk)
    run_correspondence(res, tier, seed)


if __name__ == '__main__':
    runner.main(__import__('harness.props.c15', fromlist=['x']))
