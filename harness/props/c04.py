"""C04 — paths and accessors address exactly the leaves.
Correspondence: cmd 2 (paths, typed accessor entries from the treespec) and cmd 10 (every path applied
to the tree). Oracle: accessor(tree) is the i-th leaf, .path is the i-th path, typing of entries,
distinct / prefix-free paths, accessor == / hash, slicing and concatenation, generated code."""
import random
from collections import OrderedDict, defaultdict, deque   # noqa: F401  (names used by eval of generated code)

import optree

from .. import gen, runner, sx, world, implops
from ..world import World, abstract, attempt, realize

PROP = 'C04'


def literal_key(e):
    return type(e) in (int, str, float, tuple, complex) or e is None


def oracle(res, cfg, o, rng):
    case = (10, cfg, o)
    with World(cfg) as w:
        tree = realize(o, rng, {})
        kw = w.kw()
        f = attempt(lambda: optree.tree_flatten_with_accessor(tree, **kw))
        if f[0] != 0:
            f0 = attempt(lambda: optree.tree_flatten(tree, **kw))
            if f0[0] == 0:
                res.fail('tree_flatten_with_accessor raised on a tree that tree_flatten accepts', case, f)
            return (1,)
        accs, ls, sp = f[1]
        paths = optree.tree_paths(tree, **kw)
        res.evaluations += 1
        got = []
        for i, (acc, leaf) in enumerate(zip(accs, ls)):
            if acc.path != paths[i]:
                res.fail('accessor.path differs from the i-th path', case, i)
            callable_ = all(not (type(e) is optree.GetAttrEntry and not isinstance(e.entry, str)) for e in acc)
            if not callable_:
                got.append((1,))
                continue
            r = attempt(lambda: acc(tree))
            if r[0] != 0:
                res.fail('accessor raised when applied to its own tree', case, f'{acc} {r}')
                got.append((1,))
                continue
            got.append((0, abstract(r[1])))
            if r[1] is not leaf:
                res.fail('the i-th accessor applied to the tree is not the i-th leaf object', case, f'{acc}')
            # typing of each entry: parent type / kind, field names
            node = tree
            for e in acc:
                if int(e.kind) != 0 and type(node) is not e.type:
                    res.fail('an entry is not typed with its parent node type', case, f'{e}')
                if type(e) is optree.NamedTupleEntry and e.field != type(node)._fields[e.entry]:
                    res.fail('NamedTupleEntry field name is wrong', case, f'{e}')
                if type(e) is optree.StructSequenceEntry and getattr(node, e.field) is not node[e.entry]:
                    res.fail('StructSequenceEntry field name is wrong', case, f'{e}')
                node = e(node)
            # equality / hash, slicing, concatenation
            clone = optree.PyTreeAccessor(tuple(acc))
            if clone != acc or hash(clone) != hash(acc):
                res.fail('accessor equality / hash inconsistent', case)
            for k in range(len(acc) + 1):
                a, b = acc[:k], acc[k:]
                if a + b != acc or b(a(tree)) is not leaf:
                    res.fail('slicing and concatenating accessors does not compose access', case, k)
                    break
            # generated code
            if all(type(e) is not optree.FlattenedEntry and (literal_key(e.entry) or type(e) in (optree.GetAttrEntry,))
                   and not (type(e) is optree.GetAttrEntry and not str(e.entry).isidentifier()) for e in acc):
                code = acc.codify('tree')
                ev = attempt(lambda: eval(code, {'tree': tree}))   # noqa: S307
                if ev[0] != 0 or ev[1] is not leaf:
                    res.fail('generated code does not evaluate to the leaf', case, code)
        # distinct, none a proper prefix of another
        ps = [tuple(world.abs_key(e) for e in p) for p in paths]
        if len(set(ps)) != len(ps):
            # duplicate explicit entries of a custom node make paths ambiguous: not in the property's scope
            if entries_distinct(o):
                res.fail('paths of distinct leaves are not distinct', case)
        elif entries_distinct(o):
            for a in ps:
                for b in ps:
                    if a is not b and len(a) < len(b) and b[:len(a)] == a:
                        res.fail('a path is a proper prefix of another', case, (a, b))
        if not (len(paths) == len(accs) == len(ls) == sp.num_leaves):
            res.fail('counts of paths/accessors/leaves differ', case)
        return (0, tuple(got), tuple(abstract(x) for x in ls))


def oracle_eq_hash(res, rng):
    """accessor == / hash consistency across accessors obtained in different ways for the same
    positions: the same type seen as a built-in node and as a custom node, different entry classes"""
    import collections
    NT = collections.namedtuple('EqNT', 'a b')

    class Seq(list):
        pass
    regs = [(NT, 'e1', None), (NT, 'e2', optree.SequenceEntry), (Seq, 'e1', optree.SequenceEntry),
            (Seq, 'e2', None), (Seq, 'e3', optree.GetAttrEntry)]
    done = []
    try:
        for cls, ns, pet in regs:
            kw = {} if pet is None else {'path_entry_type': pet}
            optree.register_pytree_node(cls, lambda x: (tuple(x), None), lambda md, ch, cls=cls: cls(*ch) if cls is NT else cls(ch),
                                        namespace=ns, **kw)
            done.append((cls, ns))
        t = {'k': NT(1, (2, 3)), 'q': Seq([4, NT(5, 6)])}
        pool = []
        for ns in ('', 'e1', 'e2', 'e3'):
            for nil in (False, True):
                pool += list(optree.tree_accessors(t, namespace=ns, none_is_leaf=nil))
        res.evaluations += 1
        for x in pool:
            for y in pool:
                if x == y:
                    if hash(x) != hash(y):
                        res.fail('two accessors compare equal but hash differently', 'eq-hash pool', f'{x!r} / {y!r}')
                        return
                    if [(type(e), e.entry, e.type, int(e.kind)) for e in x] != [(type(e), e.entry, e.type, int(e.kind)) for e in y]:
                        res.fail('two accessors with different entry class / type / kind compare equal', 'eq-hash pool', f'{x!r} / {y!r}')
                        return
                elif [(type(e), e.entry, e.type, int(e.kind)) for e in x] == [(type(e), e.entry, e.type, int(e.kind)) for e in y]:
                    res.fail('two accessors with identical entries compare unequal', 'eq-hash pool', f'{x!r} / {y!r}')
                    return
    finally:
        for cls, ns in done:
            optree.unregister_pytree_node(cls, namespace=ns)


def oracle_dataclass(res, rng, cmds=None, obs=None):
    """dataclasses as custom nodes: integer entries (no entries returned by the flatten function) index the
    INIT fields, string entries name the field; with init=False fields before / between / after the init
    fields, keyword-only fields, and nesting inside and around other containers"""
    import dataclasses
    nf = rng.randrange(1, 6)
    spec = []
    for i in range(nf):
        init = rng.random() < 0.65
        spec.append((f'f{i}', init))
    if not any(init for _, init in spec):
        j = rng.randrange(nf)
        spec[j] = (spec[j][0], True)
    fields = []
    for name, init in spec:
        if init:
            fields.append((name, object))
        else:
            fields.append((name, object, dataclasses.field(init=False, default_factory=lambda: ['derived'])))
    cls = dataclasses.make_dataclass(f'DC{rng.randrange(10**6)}', fields)
    init_names = [n for n, i in spec if i]
    use_names = rng.random() < 0.4
    pet = rng.choice([None, optree.DataclassEntry]) if not use_names else rng.choice([None, optree.DataclassEntry, optree.GetAttrEntry])

    def flat(x):
        ch = tuple(getattr(x, n) for n in init_names)
        return (ch, None, tuple(init_names)) if use_names else (ch, None)

    ns = rng.choice(['', 'dc-ns'])
    kw = {} if pet is None else {'path_entry_type': pet}
    optree.register_pytree_node(cls, flat, lambda md, ch: cls(*ch), namespace=ns or world.GLOBAL, **kw)
    case = f'dataclass fields={spec} string_entries={use_names} path_entry_type={getattr(pet, "__name__", None)} namespace={ns!r}'
    if cmds is not None:
        # the model's DataclassEntry: the field each integer entry names (cmd 27)
        probe = [attempt(lambda i=i: optree.DataclassEntry(i, cls, optree.PyTreeKind.CUSTOM).field) for i in range(len(init_names))]
        cmds.append((27, tuple((int(n[1:]), 1 if init else 0, 0) for n, init in spec)))
        obs.append((0, tuple(int(r[1][1:]) if r[0] == 0 and isinstance(r[1], str) and r[1][:1] == 'f' else () for r in probe)))
    try:
        leaves = [world.Opaque(70000 + i) for i in range(3 * nf + 3)]
        it = iter(leaves)

        def child():
            r = rng.random()
            if r < 0.5:
                return next(it)
            if r < 0.7:
                return [next(it), (next(it),)]
            return {'k': next(it)}
        inner = cls(*[child() for _ in init_names])
        tree = rng.choice([lambda: inner, lambda: [inner, next(it)], lambda: {'d': inner}, lambda: (cls(*[inner] + [next(it) for _ in init_names[1:]]),)])()
        res.evaluations += 1
        accs, ls, sp = optree.tree_flatten_with_accessor(tree, namespace=ns)
        paths = optree.tree_paths(tree, namespace=ns)
        if [a.path for a in accs] != paths or sp.accessors() != accs:
            res.fail('accessor paths differ from tree_paths / treespec.accessors()', case)
        for acc, leaf in zip(accs, ls):
            r = attempt(lambda: acc(tree))
            if r[0] != 0 or r[1] is not leaf:
                res.fail('the i-th accessor applied to the tree is not the i-th leaf object (dataclass node)', case, f'{acc!r} -> {r}')
                continue
            node = tree
            for e in acc:
                if type(node) is cls:
                    if e.type is not cls:
                        res.fail('an entry below a dataclass node is not typed with the dataclass', case, f'{e!r}')
                    if isinstance(e, optree.DataclassEntry):
                        want = init_names[e.entry] if isinstance(e.entry, int) else e.entry
                        if e.field != want or e.name != want or want not in init_names:
                            res.fail('DataclassEntry names the wrong field', case, f'{e!r} entry={e.entry!r} field={e.field!r} want={want!r}')
                node = e(node)
            code = attempt(lambda: acc.codify('tree'))
            if code[0] == 0:
                ev = attempt(lambda: eval(code[1], {'tree': tree}))   # noqa: S307
                if ev[0] != 0 or ev[1] is not leaf:
                    res.fail('generated code does not evaluate to the leaf (dataclass node)', case, code[1])
    finally:
        optree.unregister_pytree_node(cls, namespace=ns or world.GLOBAL)


def entries_distinct(o):
    if o[0] != 1:
        return True
    h = o[1]
    if h[0] == 9 and h[3][0] == 2 and len(set(h[3][1:])) != len(h[3][1:]):
        return False
    return all(entries_distinct(c) for c in o[2:])


def run(res, tier, seed):
    rng = random.Random(seed * 1000003 + 4)
    limit = optree.MAX_RECURSION_DEPTH
    n = 1500 if tier == 'quick' else 30000
    cmds, obs = [], []
    for i in range(n):
        cfg = gen.gen_cfg(rng, limit)
        g = gen.TreeGen(rng, world.STRUCTSEQ_ARITY, max_nodes=rng.choice([6, 15, 30]),
                        max_depth=rng.choice([3, 5, 8]), max_arity=rng.choice([2, 4, 6]))
        o = g.tree()
        res.note_input((cfg, o), gen.obj_internal(o) >= 2)
        crng = random.Random(rng.getrandbits(48))
        ob = oracle(res, cfg, o, crng)
        # model side: every path applied structurally (the model has no GetAttr restriction)
        if ob[0] == 0 and all(x != (1,) for x in ob[1]) and entries_distinct(o):
            cmds.append((10, cfg, o))
            obs.append(ob)
        cmds.append((2, cfg, o))
        obs.append(implops.impl_inspect(cfg, o, crng))
    import warnings
    with warnings.catch_warnings():
        warnings.simplefilter('ignore')
        for i in range(5):
            oracle_eq_hash(res, rng)
        for i in range(300 if tier == 'quick' else 6000):
            oracle_dataclass(res, rng, cmds, obs)
    mod = runner.run_model(cmds)
    for c, a, b in zip(cmds, obs, mod):
        res.compare(c, a, b, {10: 'cmd_access', 27: 'cmd_dataclass_entry'}.get(c[0], 'cmd_inspect'))
        res.count('cmd_%d' % c[0])
    for c in cmds[:3]:
        res.sample(sx.dump(c)[:500])


if __name__ == '__main__':
    runner.main(__import__('harness.props.c04', fromlist=['x']))
