"""C03 — all traversal entry points agree with each other.
Correspondence: cmd 1 (flatten / with_path / iterator) and cmd 2 (paths, accessors from the spec).
Oracle: all eight entry points on the same input, all-pairs; counts; is_leaf/all_leaves;
reductions; exception-type parity on a separate malformed stream."""
import functools
import operator
import random

import optree

from .. import gen, runner, sx, world, implops
from ..world import World, abstract, attempt, realize
from .c01 import impl_traverse

PROP = 'C03'


def ident_list(xs):
    return [id(x) for x in xs]


def _mismatch(o):
    h = o[1]
    return h[0] == 9 and h[3][0] == 2 and len(h[3]) - 1 != len(o) - 2


def _has_fault(o, limit, depth):
    """some node of o fails on its own: malformed custom node or nesting beyond the limit"""
    if o[0] != 1:
        return False
    if depth > limit:
        return True
    h = o[1]
    if h[0] == 9 and (h[3][0] in (3, 4) or _mismatch(o)):
        return True
    return any(_has_fault(c, limit, depth + 1) for c in o[2:])


def k1_shape(o, limit, depth=0):
    """structural matcher of known finding K1: a custom node whose explicit entries have the wrong
    length and that has a descendant which fails by itself (malformed or over-deep)"""
    if o[0] != 1:
        return False
    if _mismatch(o) and (depth + gen.obj_depth(o) > limit or
                         any(_has_fault(c, limit, depth + 1) for c in o[2:])):
        return True
    return any(k1_shape(c, limit, depth + 1) for c in o[2:])


def oracle(res, cfg, o, rng, limit):
    case = (1, cfg, o)
    with World(cfg) as w:
        tree = realize(o, rng, {})
        kw = w.kw()
        r = {
            'flatten': attempt(lambda: optree.tree_flatten(tree, **kw)),
            'with_path': attempt(lambda: optree.tree_flatten_with_path(tree, **kw)),
            'with_accessor': attempt(lambda: optree.tree_flatten_with_accessor(tree, **kw)),
            'leaves': attempt(lambda: optree.tree_leaves(tree, **kw)),
            'iter': attempt(lambda: list(optree.tree_iter(tree, **kw))),
            'structure': attempt(lambda: optree.tree_structure(tree, **kw)),
            'paths': attempt(lambda: optree.tree_paths(tree, **kw)),
            'accessors': attempt(lambda: optree.tree_accessors(tree, **kw)),
        }
        res.evaluations += 1
        kinds = {k: (v[0] if v[0] == 0 else v[1:]) for k, v in r.items()}
        if len(set(kinds.values())) > 1:
            outcomes = sorted(set(str(v) for v in kinds.values()))
            tag = ''
            others = set(v for k, v in kinds.items() if k != 'iter')
            if 0 not in kinds.values() and kinds['iter'] == (3,) and len(others) == 1 and k1_shape(o, limit):
                tag = ' K1-shape'
            else:
                # K3: the failing descendant sits at a child index for which the custom node declared
                # no entry: the with-path traversals notice the missing entry before they reach it
                eager = {kinds[k] for k in ('with_path', 'paths', 'iter')}
                lazy = {kinds[k] for k in ('flatten', 'with_accessor', 'leaves', 'structure', 'accessors')}
                if 0 not in kinds.values() and eager == {(3,)} and len(lazy) == 1 and k1_shape(o, limit):
                    tag = ' K3-shape'
            res.fail('traversals disagree on success / exception type', case,
                     f'{kinds}{tag}')
            return
        if r['flatten'][0] != 0:
            res.count('oracle_error_cases')
            return
        ls, sp = r['flatten'][1]
        ps2, ls2, sp2 = r['with_path'][1]
        as3, ls3, sp3 = r['with_accessor'][1]
        allsp = [sp, sp2, sp3, r['structure'][1]]
        for name, l in (('with_path', ls2), ('with_accessor', ls3), ('leaves', r['leaves'][1]), ('iter', r['iter'][1])):
            if ident_list(l) != ident_list(ls):
                res.fail(f'{name} returns different leaf objects / order than tree_flatten', case)
        for s in allsp[1:]:
            if s != sp or hash(s) != hash(sp) or repr(s) != repr(sp) or s.__getstate__() != sp.__getstate__():
                res.fail('entry points return different treespecs', case, f'{sp!r} vs {s!r}')
        if ps2 != r['paths'][1] or ps2 != sp.paths() or [a.path for a in as3] != ps2:
            res.fail('paths differ between entry points / treespec.paths()', case)
        if as3 != r['accessors'][1] or as3 != sp.accessors():
            res.fail('accessors differ between entry points / treespec.accessors()', case)
        if not (len(ps2) == len(as3) == len(ls) == sp.num_leaves):
            res.fail('numbers of paths, accessors, leaves and num_leaves differ', case)
        # tree_is_leaf / all_leaves
        isl = optree.tree_is_leaf(tree, **kw)
        single = (len(ls) == 1 and ls[0] is tree and sp.is_leaf())
        if isl != single:
            res.fail('tree_is_leaf(x) differs from "flatten gives [x] with a leaf treespec"', case)
        if o[0] == 1 and type(tree) in (list, tuple):
            al = optree.all_leaves(tree, **kw)
            if al != all(optree.tree_is_leaf(x, **kw) for x in tree):
                res.fail('all_leaves differs from every element being a leaf', case)
        reductions(res, case, tree, ls, kw, rng)


_MISSING = object()


def reductions(res, case, tree, ls, kw, rng):
    """tree_reduce / tree_sum / tree_max / tree_min / tree_all / tree_any under the SAME options equal
    the Python fold over the leaves those options give (leaves are arbitrary objects: the folds are
    made order- and identity-sensitive through the function / key they are given)"""
    def same(a, b):
        return a is b or (type(a) is type(b) and a == b)
    r = attempt(lambda: optree.tree_reduce(lambda acc, x: acc + [x], tree, [], **kw))
    if r[0] != 0 or ident_list(r[1]) != ident_list(ls):
        res.fail('tree_reduce with an initial value does not fold over the leaves of tree_leaves (same options)', case, r)
    if ls:
        r = attempt(lambda: optree.tree_reduce(lambda a, x: (a, x), tree, **kw))
        want = functools.reduce(lambda a, x: (a, x), ls)
        if r[0] != 0 or not _same_nest(r[1], want):
            res.fail('tree_reduce without an initial value differs from functools.reduce over tree_leaves (same options)', case)
    # a pseudo-random ranking of the leaf objects, so that max / min are neither first nor last by chance
    rank = {}
    for x in ls:
        rank.setdefault(id(x), rng.random())
    key = lambda x: rank.get(id(x), -1.0)            # noqa: E731
    for name, fn, py in (('tree_max', optree.tree_max, max), ('tree_min', optree.tree_min, min)):
        r = attempt(lambda: fn(tree, key=key, default=_MISSING, **kw))
        want = py(ls, key=key, default=_MISSING)
        if r[0] != 0 or r[1] is not want:
            res.fail(f'{name} differs from the Python fold over tree_leaves (same options)', case, f'{r} want={want!r}')
    for name, fn, py in (('tree_all', optree.tree_all, all), ('tree_any', optree.tree_any, any)):
        r = attempt(lambda: fn(tree, **kw))
        w = attempt(lambda: py(ls))
        if r[0] != w[0] or (r[0] == 0 and r[1] != w[1]):
            res.fail(f'{name} differs from the Python fold over tree_leaves (same options)', case, f'{r} want={w}')
    if ls and all(type(x) in (int, float) for x in ls):
        r = attempt(lambda: optree.tree_sum(tree, **kw))
        if r[0] != 0 or r[1] != sum(ls):
            res.fail('tree_sum differs from sum over tree_leaves (same options)', case, r)
    r = attempt(lambda: optree.tree_sum(tree, start=(), **kw)) if all(type(x) is tuple for x in ls) else None
    if r is not None and (r[0] != 0 or r[1] != sum(ls, ())):
        res.fail('tree_sum with a start value differs from sum over tree_leaves (same options)', case, r)


def _same_nest(a, b):
    # left-nested pairs built by the fold: compare by identity at the leaves, iteratively
    while type(a) is tuple and type(b) is tuple and len(a) == 2 and len(b) == 2:
        if a[1] is not b[1]:
            return False
        a, b = a[0], b[0]
    return a is b


def _replace_leaf_by_none(o):
    out = (1, (0,))
    # rebuild the chain bottom-up without recursion
    chain = []
    cur = o
    while cur[0] == 1 and len(cur) > 2:
        chain.append(cur[1])
        cur = cur[2]
    for h in reversed(chain):
        out = (1, h, out)
    return out


def oracle_reduce(res, rng):
    # reductions over integer leaves
    g = gen.TreeGen(rng, world.STRUCTSEQ_ARITY, max_nodes=20, max_depth=5, max_arity=4,
                    custom_classes=(5,), none_p=0.0)
    o = g.tree(kinds=['tuple', 'list', 'dict', 'odict', 'deque', 'named'])
    vals = {}

    def real(o):
        if o[0] == 0:
            vals[o[1]] = rng.randrange(-50, 50)
            return vals[o[1]]
        return None
    tree = realize(o, None, {k: v for k, v in [(i, rng.randrange(-50, 50)) for i in range(1, g.next_id + 2)]})
    ls = optree.tree_leaves(tree)
    res.evaluations += 1
    case = (1, 'reduce', o)
    if not ls:
        return
    if optree.tree_reduce(operator.add, tree) != functools.reduce(operator.add, ls):
        res.fail('tree_reduce differs from functools.reduce over tree_leaves', sx.dump(o))
    if optree.tree_reduce(operator.sub, tree, 7) != functools.reduce(operator.sub, ls, 7):
        res.fail('tree_reduce with initial differs', sx.dump(o))
    if optree.tree_sum(tree) != sum(ls) or optree.tree_max(tree) != max(ls) or optree.tree_min(tree) != min(ls):
        res.fail('tree_sum/max/min differ from the fold over tree_leaves', sx.dump(o))
    if optree.tree_all(tree) != all(ls) or optree.tree_any(tree) != any(ls):
        res.fail('tree_all/any differ from the fold over tree_leaves', sx.dump(o))


def run(res, tier, seed):
    rng = random.Random(seed * 1000003 + 3)
    limit = optree.MAX_RECURSION_DEPTH
    n = 1500 if tier == 'quick' else 30000
    cases = []
    for i in range(n):
        cfg = gen.gen_cfg(rng, limit)
        g = gen.TreeGen(rng, world.STRUCTSEQ_ARITY, max_nodes=rng.choice([6, 15, 40]),
                        max_depth=rng.choice([3, 6, 12]), max_arity=rng.choice([2, 4, 8]))
        cases.append((cfg, g.tree(), 'valid'))
    # malformed stream, kept apart
    nm = n // 3
    for i in range(nm):
        cfg = gen.gen_cfg(rng, limit)
        g = gen.TreeGen(rng, world.STRUCTSEQ_ARITY, max_nodes=rng.choice([6, 15]), max_depth=5,
                        max_arity=4, malformed=True)
        cases.append((cfg, g.tree(kinds=['custom', 'tuple', 'dict', 'custom', 'list']), 'malformed'))
    # over-deep trees of every kind, alone and below a malformed custom node (K1 territory)
    for kind in ['tuple', 'list', 'dict', 'odict', 'ddict', 'deque', 'named', 'struct', 'custom']:
        for d in (limit, limit + 1):
            cfg = (0, 0, 0, ((0, 0, 1, 0),), (), limit)
            cases.append((cfg, gen.depth_tree(kind, d), 'deep'))
    # over-deep tree whose deepest object is accepted by the predicate (depth is checked first)
    for kind in ['tuple', 'list', 'dict']:
        for d in (limit, limit + 1, limit + 3):
            cases.append(((0, 0, 3, (), (), limit), gen.depth_tree(kind, d, leaf_id=3), 'deep'))
            t = gen.depth_tree(kind, d)
            cases.append(((0, 0, 5, (), (), limit), _replace_leaf_by_none(t), 'deep'))
    cfgk = (0, 0, 0, ((0, 0, 1, 0),), (), limit)
    cases.append((cfgk, (1, (9, 0, 0, (2, (0, 0), (0, 1))), gen.depth_tree('list', limit + 1)), 'k1'))
    # K3: more children than entries, the child without an entry fails by itself (its flatten raises)
    cases.append((cfgk, (1, (9, 0, 0, (2, (0, 0), (0, 1))), (0, 1), (0, 2), (1, (9, 0, 2, (4, 26)))), 'k3'))
    cmds, obs = [], []
    for (cfg, o, label) in cases:
        res.count('stream_' + label)
        if label not in ('deep', 'k1'):
            res.note_input((cfg, o), gen.obj_internal(o) >= 2)
        crng = random.Random(rng.getrandbits(48))
        obs.append(impl_traverse(cfg, o, crng))
        cmds.append((1, cfg, o))
        oracle(res, cfg, o, random.Random(rng.getrandbits(48)), limit)
        if label != 'deep' and label != 'k1' and rng.random() < 0.5:
            obs.append(implops.impl_inspect(cfg, o, crng))
            cmds.append((2, cfg, o))
    mod = runner.run_model(cmds)
    for c, a, b in zip(cmds, obs, mod):
        res.compare(c, a, b, 'cmd_traverse' if c[0] == 1 else 'cmd_inspect')
        if c[0] == 1:
            res.count('flatten_' + ('ok' if a[0][0] == 0 else 'err%s' % (a[0][1],)))
    for i in range(300 if tier == 'quick' else 5000):
        oracle_reduce(res, rng)
    run_all_leaves(res, rng, n, limit)
    for c in cmds[:3]:
        res.sample(sx.dump(c)[:500])


def run_all_leaves(res, rng, n, limit):
    """cmd 32: all_leaves(xs) against the model, on element lists in which objects of ONE type that the options
    classify differently (a value-dependent predicate, a class registered in one namespace only, None) stand next
    to each other in every order; oracle: all_leaves(xs) == every tree_is_leaf(x) == every flatten(x) gives [x]"""
    cmds, obs = [], []
    for i in range(n):
        cfg = gen.gen_cfg(rng, limit)
        if rng.random() < 0.5:
            cfg = (cfg[0], cfg[1], rng.choice([1, 2, 3, 3, 3, 4, 5]), cfg[3], cfg[4], cfg[5])
        g = gen.TreeGen(rng, world.STRUCTSEQ_ARITY, max_nodes=rng.choice([1, 2, 4]), max_depth=2, max_arity=3, none_p=0.2)
        pool = [g.tree() for _ in range(rng.randrange(1, 4))]
        # lists of one and of two elements (predicate 3 accepts exactly the two-element lists), leaves whose id
        # predicate 3 accepts / rejects, empty containers
        pool += [(1, (2,), g.leaf()), (1, (2,), g.leaf(), g.leaf()), (0, 3 * rng.randrange(1, 50)), (0, 3 * rng.randrange(1, 50) + 1),
                 (1, (1,)), (1, (1,), g.leaf()), (1, (0,))]
        k = rng.choice([0, 1, 2, 2, 3, 3, 4, 6])
        xs = tuple(rng.choice(pool) for _ in range(k))
        with World(cfg) as w:
            kw = w.kw()
            elems = [realize(x, random.Random(100 * i + j), {}) for j, x in enumerate(xs)]
            cont = rng.choice(['list', 'tuple', 'iter'])
            arg = list(elems) if cont == 'list' else tuple(elems) if cont == 'tuple' else iter(list(elems))
            al = attempt(lambda: optree.all_leaves(arg, **kw))
            each = attempt(lambda: [optree.tree_is_leaf(x, **kw) for x in elems])
            res.evaluations += 1
            case = (32, cfg, xs)
            if al[0] == 0 and each[0] == 0:
                if al[1] != all(each[1]):
                    res.fail('all_leaves(xs) differs from every element being a leaf (tree_is_leaf)', case, f'{al[1]} vs {each[1]}')
                fl = attempt(lambda: [(lambda r: len(r[0]) == 1 and r[0][0] is x and r[1].is_leaf())(optree.tree_flatten(x, **kw))
                                      for x in elems])
                if fl[0] == 0 and fl[1] != each[1]:
                    res.fail('tree_is_leaf(x) differs from "flatten gives [x] with a leaf treespec"', case)
                res.count('all_leaves_%s' % al[1])
            o = (0, 1 if al[1] else 0, tuple(1 if b else 0 for b in each[1])) if al[0] == 0 and each[0] == 0 else (al if al[0] != 0 else each)
        cmds.append(case)
        obs.append(o)
    mod = runner.run_model(cmds)
    for c, a, b in zip(cmds, obs, mod):
        res.compare(c, a, b, 'cmd_all_leaves')


if __name__ == '__main__':
    runner.main(__import__('harness.props.c03', fromlist=['x']))
