"""C10 — transposition swaps outer and inner structure without losing or moving values.
Correspondence: cmd 6 (tree_transpose and transposing back). Oracle: value at (inner j, outer i) is the
input value at (outer i, inner j); involution; the documented errors; tree_transpose_map family."""
import random

import optree

from .. import gen, runner, sx, world
from ..world import World, abstract, attempt, realize

PROP = 'C10'


def relabel(o, counter):
    if o[0] == 0:
        counter[0] += 1
        return (0, counter[0])
    return (o[0], o[1], *[relabel(c, counter) for c in o[2:]])


def substitute(outer, inner, counter, is_leaf):
    """replace every leaf position of outer (per is_leaf) by a fresh copy of inner"""
    if is_leaf(outer):
        return relabel(inner, counter)
    return (outer[0], outer[1], *[substitute(c, inner, counter, is_leaf) for c in outer[2:]])


def model_is_leaf(cfg):
    nil, ns, pred, regs, ins, limit = cfg
    regd = {(r[0], r[1]) for r in regs}

    def f(o):
        if o[0] == 0:
            return True
        h = o[1]
        if h[0] == 0:
            return bool(nil)
        if h[0] == 9:
            return not ((h[1], ns) in regd and ns != 0 or (h[1], 0) in regd)
        return False
    return f


def impl_transpose(cfg, oo, oi, t, rng, res):
    case = (6, cfg, oo, oi, t)
    with World(cfg) as w:
        kw = w.kw()
        to, ti, tt = realize(oo, rng, {}), realize(oi, rng, {}), realize(t, rng, {})
        fo = attempt(lambda: optree.tree_flatten(to, **kw))
        fi = attempt(lambda: optree.tree_flatten(ti, **kw))
        if fo[0] != 0 or fi[0] != 0:
            return case, (5,)
        so, si = fo[1][1], fi[1][1]
        r = attempt(lambda: optree.tree_transpose(so, si, tt))
        back = ()
        if r[0] == 0:
            b = attempt(lambda: optree.tree_transpose(si, so, r[1]))
            back = (0, abstract(b[1])) if b[0] == 0 else b
        obs = (0, (0, abstract(r[1])) if r[0] == 0 else r, back)
        # ---- oracle
        res.evaluations += 1
        m, n = so.num_leaves, si.num_leaves
        if m == 0 or n == 0:
            if r[0] == 0:
                res.fail('tree_transpose accepted an empty structure', case)
            return case, obs
        comp = so.compose(si)
        ls, sp = optree.tree_flatten(tt, none_is_leaf=so.none_is_leaf, namespace=so.namespace or si.namespace)
        if sp == comp:
            if r[0] != 0:
                res.fail('tree_transpose raised on a tree of the composed shape', case, r)
                return case, obs
            out = r[1]
            ols, osp = optree.tree_flatten(out, none_is_leaf=so.none_is_leaf, namespace=so.namespace or si.namespace)
            if osp != si.compose(so):
                res.fail('tree_transpose result is not shaped inner-of-outer', case, f'{osp} vs {si.compose(so)}')
            else:
                for j in range(n):
                    for i in range(m):
                        if ols[j * m + i] is not ls[i * n + j]:
                            res.fail('value at (inner j, outer i) is not the input value at (outer i, inner j)', case, (i, j))
                            return case, obs
                if back[0] != 0 or back[1] != t:
                    res.fail('transposing back does not return the original tree', case)
        elif sp.num_leaves != m * n and r[0] == 0:
            res.fail('tree_transpose accepted a wrong leaf count', case)
        return case, obs


def oracle_transpose_map(res, rng, limit):
    cfg = gen.gen_cfg(rng, limit)
    cfg = (cfg[0], cfg[1], 0, cfg[3], cfg[4], cfg[5])
    g = gen.TreeGen(rng, world.STRUCTSEQ_ARITY, max_nodes=12, max_depth=4, max_arity=3, none_p=0.03)
    oo = g.tree()
    oi = g.tree(kinds=['tuple', 'list', 'dict', 'named', 'custom', 'custom'])
    if rng.random() < 0.5:
        oo = gen.TreeGen(rng, world.STRUCTSEQ_ARITY, max_nodes=8, max_depth=3, max_arity=3, none_p=0.0).tree(kinds=['tuple', 'list', 'dict'])
    with World(cfg) as w:
        kw = w.kw()
        to = realize(oo, rng, {})
        rest = realize(oo, rng, {})
        fo = attempt(lambda: optree.tree_flatten(to, **kw))
        if fo[0] != 0 or fo[1][1].num_leaves == 0:
            return
        inner_sp = optree.tree_structure(realize(oi, rng, {}), **kw)
        if inner_sp.num_leaves == 0:
            return
        res.evaluations += 1
        calls = []

        def f(x, y):
            calls.append((x, y))
            return inner_sp.unflatten([Box(x, y, k) for k in range(inner_sp.num_leaves)])
        r = attempt(lambda: optree.tree_transpose_map(f, to, rest, **kw))
        calls2 = []

        def f2(x, y):
            calls2.append((x, y))
            return inner_sp.unflatten([Box(x, y, k) for k in range(inner_sp.num_leaves)])
        mapped = attempt(lambda: optree.tree_map(f2, to, rest, **kw))
        case = (6, cfg, oo, oi, oo)
        if r[0] != mapped[0]:
            res.fail('tree_transpose_map and tree_map disagree on success', case, (r, mapped[0]))
            return
        if r[0] == 0:
            want = attempt(lambda: optree.tree_transpose(fo[1][1], inner_sp, mapped[1],
                                                         is_leaf=None))
            if len(calls) != len(calls2) or any(a[0] is not b[0] or a[1] is not b[1] for a, b in zip(calls, calls2)):
                res.fail('tree_transpose_map makes different calls than tree_map', case)
            if want[0] == 0 and abstract_eq(want[1], r[1], kw['namespace']) is False:
                res.fail('tree_transpose_map differs from transposing tree_map', case)
            # given inner structure, and the with_path / with_accessor variants pass the extra argument
            r2 = attempt(lambda: optree.tree_transpose_map(f, to, rest, inner_treespec=inner_sp, **kw))
            if r2[0] != 0 or abstract_eq(r2[1], r[1], kw['namespace']) is False:
                res.fail('tree_transpose_map with the inner structure given differs', case)
            firsts = []
            r3 = attempt(lambda: optree.tree_transpose_map_with_path(lambda p, x, y: (firsts.append(p), f(x, y))[1], to, rest, **kw))
            if r3[0] != 0 or firsts != fo[1][1].paths() or abstract_eq(r3[1], r[1], kw['namespace']) is False:
                res.fail('tree_transpose_map_with_path does not pass the paths / differs', case)
            firsts = []
            r4 = attempt(lambda: optree.tree_transpose_map_with_accessor(lambda a, x, y: (firsts.append(a), f(x, y))[1], to, rest, **kw))
            if r4[0] != 0 or firsts != fo[1][1].accessors() or abstract_eq(r4[1], r[1], kw['namespace']) is False:
                res.fail('tree_transpose_map_with_accessor does not pass the accessors / differs', case)
            # a varying inner shape must be rejected
            if fo[1][1].num_leaves >= 2:
                k = [0]

                def g(x, y):
                    k[0] += 1
                    return (Box(x, y, 0), Box(x, y, 1)) if k[0] == 1 else (Box(x, y, 0), Box(x, y, 1), Box(x, y, 2))
                r5 = attempt(lambda: optree.tree_transpose_map(g, to, rest, **kw))
                if r5[0] == 0:
                    res.fail('tree_transpose_map accepted results of a varying inner shape', case)


class Box:
    """an opaque leaf holding what the mapped function was called with"""
    def __init__(self, x, y, k):
        self.v = (x, y, k)


def abstract_eq(a, b, ns=''):
    """exact structural comparison of two result trees whose leaves are Box(x, y, k)"""
    fa = optree.tree_flatten(a, none_is_leaf=True, namespace=ns)
    fb = optree.tree_flatten(b, none_is_leaf=True, namespace=ns)
    if fa[1] != fb[1] or len(fa[0]) != len(fb[0]):
        return False
    for x, y in zip(fa[0], fb[0]):
        if type(x) is Box and type(y) is Box:
            if not (x.v[0] is y.v[0] and x.v[1] is y.v[1] and x.v[2] == y.v[2]):
                return False
        elif x is not y:
            return False
    return True


def run(res, tier, seed):
    rng = random.Random(seed * 1000003 + 10)
    limit = optree.MAX_RECURSION_DEPTH
    n = 1500 if tier == 'quick' else 30000
    cmds, obs = [], []
    for i in range(n):
        cfg = gen.gen_cfg(rng, limit)
        cfg = (cfg[0], cfg[1], 0, cfg[3], cfg[4], cfg[5])
        g = gen.TreeGen(rng, world.STRUCTSEQ_ARITY, max_nodes=rng.choice([4, 8, 16]), max_depth=4,
                        max_arity=rng.choice([2, 3, 4]), none_p=0.05)
        oo, oi = g.tree(), g.tree()
        counter = [1000]
        r = rng.random()
        t = substitute(oo, oi, counter, model_is_leaf(cfg))
        label = 'composed'
        if r < 0.12:
            t = gen.local_edit(rng, t, world.STRUCTSEQ_ARITY)
            label = 'edited'
        elif r < 0.18:
            t = g.tree()
            label = 'unrelated'
        res.count('transpose_' + label)
        res.note_input((cfg, oo, oi, t), gen.obj_internal(oo) + gen.obj_internal(oi) >= 2)
        c, o = impl_transpose(cfg, oo, oi, t, random.Random(rng.getrandbits(48)), res)
        cmds.append(c)
        obs.append(o)
    mod = runner.run_model(cmds)
    for c, a, b in zip(cmds, obs, mod):
        if a == (5,) and b == (5,):
            res.count('not_flattenable')
            continue
        res.compare(c, a, b, 'cmd_transpose')
        res.count('transpose_%s' % ('ok' if a[1][0] == 0 else 'err%s' % (a[1][1],)))
    for i in range(300 if tier == 'quick' else 5000):
        oracle_transpose_map(res, rng, limit)
    for c in cmds[:3]:
        res.sample(sx.dump(c)[:500])


if __name__ == '__main__':
    runner.main(__import__('harness.props.c10', fromlist=['x']))
