"""Shared worker body for the treespec operations (cmd 2 inspect, cmd 3 pair): used by C03, C04,
C06, C07, C08, C09 with different oracles and emphasis."""
import random

import optree

from .. import gen, runner, sx, world, implops


def pair_cfgs(rng, limit):
    c1 = gen.gen_cfg(rng, limit)
    if rng.random() < 0.08:
        # options differ in the namespace only, the mode is on for both named namespaces and (mostly)
        # nothing is registered: the treespecs record their namespace without containing a custom node
        ns1 = rng.choice([1, 2])
        ns2 = rng.choice([0, 1, 2, 3]) if rng.random() < 0.3 else 3 - ns1
        regs = c1[3] if rng.random() < 0.3 else ()
        ins = rng.choice([(1, 2), (1, 2), (0, 1, 2), (ns1,)])
        return (c1[0], ns1, 0, regs, ins, limit), (c1[0], ns2, 0, regs, ins, limit)
    # second configuration: same registry and modes; options equal most of the time
    nil2 = c1[0] if rng.random() < 0.85 else 1 - c1[0]
    ns2 = c1[1] if rng.random() < 0.7 else rng.choice([0, 1, 2, 3])
    c1 = (c1[0], c1[1], 0 if rng.random() < 0.7 else c1[2], c1[3], c1[4], c1[5])
    c2 = (nil2, ns2, 0, c1[3], c1[4], c1[5])
    return c1, c2


def used_classes(o, acc):
    stack = [o]
    while stack:
        x = stack.pop()
        if x[0] == 1:
            if x[1][0] == 9:
                acc.add(x[1][1])
            stack.extend(x[2:])
    return acc


def vary_regs(rng, regs, used):
    """the registry after the first treespec was made: a class (preferably one the trees use) unregistered and
    registered again (a new registration), dropped, or registered in one more namespace"""
    regs = list(regs)
    pref = [i for i, q in enumerate(regs) if q[0] in used]
    i = rng.choice(pref) if pref and rng.random() < 0.85 else rng.randrange(len(regs))
    c, n_, rid, pet = regs[i]
    r = rng.random()
    if r < 0.6:
        regs[i] = (c, n_, 1000 + rid, pet)
    elif r < 0.8:
        del regs[i]
    else:
        n2 = rng.choice([x for x in (0, 1, 2) if x != n_])
        if not any(q[0] == c and q[1] == n2 for q in regs) and not (c == 4 and n2 != 2):
            regs.append((c, n2, 2000 + rid, pet))
    return tuple(regs)


def run_inspect(res, rng, n, limit):
    cmds, obs = [], []
    for i in range(n):
        cfg = gen.gen_cfg(rng, limit)
        g = gen.TreeGen(rng, world.STRUCTSEQ_ARITY, max_nodes=rng.choice([6, 15, 40]),
                        max_depth=rng.choice([3, 6, 10]), max_arity=rng.choice([2, 4, 7]))
        o = g.tree()
        res.count('inspect_root_kind_%s' % (o[1][0] if o[0] == 1 else 'leaf'))
        res.note_input((cfg, o), gen.obj_internal(o) >= 2)
        obs.append(implops.impl_inspect(cfg, o, random.Random(rng.getrandbits(48))))
        cmds.append((2, cfg, o))
    mod = runner.run_model(cmds)
    for c, a, b in zip(cmds, obs, mod):
        res.compare(c, a, b, 'cmd_inspect')
    for c in cmds[:2]:
        res.sample(sx.dump(c)[:500])


def run_pairs(res, rng, n, limit, hook=None):
    cmds, obs = [], []
    for i in range(n):
        c1, c2 = pair_cfgs(rng, limit)
        g = gen.TreeGen(rng, world.STRUCTSEQ_ARITY, max_nodes=rng.choice([6, 15, 30]),
                        max_depth=rng.choice([3, 5, 8]), max_arity=rng.choice([2, 3, 5]))
        o1, o2, label = gen.gen_pair(rng, g, world.STRUCTSEQ_ARITY)
        if c1[1] != c2[1] and c1[3] == c2[3] and set(c1[4]) >= {1, 2} and rng.random() < 0.6:
            o2, label = o1, 'same_tree_other_namespace'
        if rng.random() < 0.3:
            o1, o2 = o2, o1
        if c1[3] and rng.random() < 0.2:
            c2 = (c2[0], c2[1], c2[2], vary_regs(rng, c1[3], used_classes(o1, used_classes(o2, set()))), c2[4], c2[5])
            res.count('pair_registry_changed_between')
        res.count('pair_' + label)
        res.note_input((c1, o1, c2, o2), gen.obj_internal(o1) + gen.obj_internal(o2) >= 2)
        h = (lambda *a, _c=(3, c1, o1, c2, o2): hook(res, _c, *a)) if hook else None
        obs.append(implops.impl_pair(c1, o1, c2, o2, random.Random(rng.getrandbits(48)), h))
        cmds.append((3, c1, o1, c2, o2))
    mod = runner.run_model(cmds)
    for c, a, b in zip(cmds, obs, mod):
        if a == (5,) and b == (5,):
            res.count('pair_not_flattenable')
            continue
        res.compare(c, a, b, 'cmd_pair')
        if a[0] == 0:
            res.count('eq_%d' % a[1])
            res.count('prefix_%d' % a[4])
            res.count('upto_%s' % ('ok' if a[8][0] == 0 else 'err'))
            res.count('bcast_%s' % ('ok' if a[9][0] == 0 else 'err'))
    for c in cmds[:2]:
        res.sample(sx.dump(c)[:500])
