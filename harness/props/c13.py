"""C13 — insertion-ordered dict mode is scoped to its namespace and with-block.
Correspondence: cmd 8 — programs of nested with-blocks (normal or raising exit) with observations of
every namespace's own flag AND of the effective behaviour (leaf order of a probe dict, round trip,
Python-visible registry entry) at every observation point and at the end.
Exhaustive: all well-nested programs up to depth 3 with <= 2 statements per block (quick) over
namespaces {global, 'a', 'b'} x {True, False} x {normal, raise}."""
import itertools
import random
from collections import OrderedDict, defaultdict

import optree

from .. import runner, sx, world

PROP = 'C13'
NSN = {0: '', 1: 'a', 2: 'b'}


class Boom(Exception):
    pass


CHECK = [None]


def observe():
    own = [1 if optree._C.is_dict_insertion_ordered(NSN[n], inherit_global_namespace=False) else 0 for n in (0, 1, 2)]
    eff = []
    probe = {'b': 1, 'a': 2}
    for n in (0, 1, 2):
        ls = optree.tree_leaves(probe, namespace=NSN[n])
        eff.append(1 if ls == [1, 2] else 0)
    return tuple(own + eff)


def oracle(res, case):
    """behavioural facts at an observation point, on the implementation"""
    res.evaluations += 1
    for n in (0, 1, 2):
        ns = NSN[n]
        on = optree._C.is_dict_insertion_ordered(ns)
        d = {'b': 1, 'a': 2}
        dd = defaultdict(int, [('z', 1), ('y', 2)])
        od = OrderedDict([('b', 1), ('a', 2)])
        want = [1, 2] if on else [2, 1]
        entry_points = {
            'flatten': optree.tree_flatten(d, namespace=ns)[0],
            'with_path': optree.tree_flatten_with_path(d, namespace=ns)[1],
            'iter': list(optree.tree_iter(d, namespace=ns)),
            'leaves': optree.tree_leaves(d, namespace=ns),
            'ddict': optree.tree_leaves(dd, namespace=ns),
        }
        for name, got in entry_points.items():
            if got != want:
                res.fail(f'{name} in namespace {ns!r} does not follow the dict-order mode', case, f'mode={on} got={got}')
        if optree.tree_leaves(od, namespace=ns) != [1, 2]:
            res.fail('OrderedDict order affected by the mode', case)
        # constructors
        sp = optree.treespec_dict({'b': optree.treespec_leaf(), 'a': optree.treespec_leaf()}, namespace=ns)
        if sp.entries() != (['b', 'a'] if on else ['a', 'b']):
            res.fail('treespec_dict does not follow the dict-order mode', case, f'{sp}')
        # round trip
        ls, spec = optree.tree_flatten({'t': d, 'q': dd}, namespace=ns)
        back = spec.unflatten(ls)
        if list(back) != ['t', 'q'] or list(back['t']) != ['b', 'a'] or list(back['q']) != ['z', 'y'] or type(back['q']) is not defaultdict:
            res.fail('round trip under the dict-order mode changes the tree', case)
        # every traversal that returns a treespec: same treespec (namespace included), and the result
        # round-trips through the namespace the treespec itself recorded (what tree_transpose,
        # tree_broadcast_* and unpickling consumers re-flatten with)
        big = {'t': d, 'q': dd, 'l': [{'y': 3, 'x': 4}, od]}
        specs = {
            'flatten': optree.tree_flatten(big, namespace=ns),
            'with_path': optree.tree_flatten_with_path(big, namespace=ns)[1:],
            'with_accessor': optree.tree_flatten_with_accessor(big, namespace=ns)[1:],
        }
        ls0, sp0 = specs['flatten']
        st = optree.tree_structure(big, namespace=ns)
        for name, (ls1, sp1) in list(specs.items()) + [('structure', (ls0, st))]:
            if ls1 != ls0 or sp1 != sp0 or sp1.namespace != sp0.namespace or repr(sp1) != repr(sp0) \
                    or sp1.__getstate__() != sp0.__getstate__():
                res.fail(f'{name} and tree_flatten return different leaves / treespecs under the dict-order mode', case,
                         f'ns={ns!r} mode={on} {sp0!r} vs {sp1!r}')
            again = optree.tree_flatten(sp1.unflatten(ls1), namespace=sp1.namespace, none_is_leaf=sp1.none_is_leaf)
            if again[0] != ls1 or again[1] != sp1:
                res.fail(f'the result of {name} does not round-trip through the namespace its treespec recorded', case,
                         f'ns={ns!r} mode={on} recorded={sp1.namespace!r} leaves={ls1} again={again[0]}')
        # python-visible registry
        e = optree.register_pytree_node.get(dict, namespace=ns if n else world.GLOBAL)
        ch = list(e.flatten_func(d)[0])
        if ch != want:
            res.fail('register_pytree_node.get(dict) does not reflect the current mode', case, f'mode={on} children={ch}')
        listing = optree.register_pytree_node.get(namespace=ns if n else world.GLOBAL)
        for typ, probe, w in ((dict, d, want), (defaultdict, dd, want)):
            ch2 = list(listing[typ].flatten_func(probe)[0])
            if ch2 != w:
                res.fail('register_pytree_node.get(namespace=N) listing does not reflect the current mode', case,
                         f'ns={ns!r} type={typ.__name__} mode={on} children={ch2}')
        e3 = optree.register_pytree_node.get(defaultdict, namespace=ns if n else world.GLOBAL)
        if list(e3.flatten_func(dd)[0]) != want:
            res.fail('register_pytree_node.get(defaultdict) does not reflect the current mode', case)


def execute(prog, obs, res, case):
    if prog[0] == 0:
        obs.append(observe())
        if res is not None:
            oracle(res, case)
        return
    _, mode, n, raises, *body = prog
    before = observe()[:3]
    try:
        with optree.dict_insertion_ordered(bool(mode), namespace=NSN[n] if n else world.GLOBAL):
            inside = observe()[:3]
            if CHECK[0] is not None:
                want_in = list(before)
                want_in[n] = mode
                if list(inside) != want_in:
                    CHECK[0].fail('entering a with-block changed another namespace or did not set its own', case, f'{before}->{inside}')
            for q in body:
                execute(q, obs, res, case)
            if raises:
                raise Boom()
    finally:
        after = observe()[:3]
        if CHECK[0] is not None and after != before:
            CHECK[0].fail('when a with-block exited the mode of some namespace is not what it was on entry', case,
                          f'block=({mode},{n},raises={raises}) before={before} after={after}')


def run_program(progs, res, case, with_oracle):
    CHECK[0] = res
    for n in (0, 1, 2):
        optree._C.set_dict_insertion_ordered(False, NSN[n])
    obs = []
    for p in progs:
        try:
            execute(p, obs, res if with_oracle else None, case)
        except Boom:
            pass
    final = observe()
    return (final, tuple(obs))


def gen_blocks(depth, width):
    """all programs (single statements) of nesting depth <= depth with <= width statements per block"""
    if depth == 0:
        return [(0,)]
    inner = gen_blocks(depth - 1, width)
    bodies = [()]
    for w in range(1, width + 1):
        bodies += list(itertools.product(inner, repeat=w))
    out = [(0,)]
    for mode in (0, 1):
        for n in (0, 1, 2):
            for raises in (0, 1):
                for b in bodies:
                    out.append((1, mode, n, raises, *b))
    return out


def run(res, tier, seed):
    rng = random.Random(seed * 1000003 + 13)
    progs = []
    # exhaustive depth 2 (width 2); depth 3 with width 1 chains; thorough adds depth 3 width 2 sampled heavily
    d2 = gen_blocks(2, 2)
    for p in d2:
        progs.append(((p,), 'exhaustive_depth2_width2'))
    d1 = gen_blocks(1, 1)
    chains = []
    for mode in (0, 1):
        for n in (0, 1, 2):
            for raises in (0, 1):
                for mid in gen_blocks(2, 1):
                    chains.append((1, mode, n, raises, mid, (0,)))
    for p in chains:
        progs.append(((p,), 'exhaustive_depth3_chains'))
    # sequences of two top-level statements and random deeper programs
    def rnd(depth):
        if depth == 0 or rng.random() < 0.25:
            return (0,)
        return (1, rng.randrange(2), rng.randrange(3), 1 if rng.random() < 0.3 else 0,
                *[rnd(depth - 1) for _ in range(rng.randrange(0, 4))])
    for i in range(1500 if tier == 'quick' else 40000):
        progs.append((tuple(rnd(rng.choice([2, 3, 4, 5])) for _ in range(rng.randrange(1, 4))), 'random'))
    cmds, obs = [], []
    for i, (ps, label) in enumerate(progs):
        cmd = (8, ps)
        res.count(label)
        res.note_input(cmd, sx.size(cmd) > 8)
        o = run_program(ps, res, cmd, with_oracle=(i % 7 == 0))
        cmds.append(cmd)
        obs.append(o)
        final = o[0]
        res.evaluations += 1
        if final != (0, 0, 0, 0, 0, 0):
            res.fail('after all with-blocks exited some namespace is not back in its original mode', cmd, final)
    mod = runner.run_model(cmds)
    for c, a, b in zip(cmds, obs, mod):
        res.compare(c, a, b, 'cmd_mode')
    res.notes.append(f'exhaustive: {len(d2)} programs of depth <= 2 (<= 2 statements per block) and {len(chains)} depth-3 chains; the rest random')
    for c in cmds[5:7] + cmds[-2:]:
        res.sample(sx.dump(c)[:300])


if __name__ == '__main__':
    runner.main(__import__('harness.props.c13', fromlist=['x']))
