"""C18 — the Python twins of engine logic give the same answers as the engine.
Correspondence: cmd 13 — both recognisers on a generated class universe (every trait toggled), the
traits measured on the real class, vs the model's two functions; the engine answer and the Python twin
answer are each compared with their own model function.
Oracle (twin vs twin on the implementation): namedtuple / struct-sequence recognition and field
listing, total-order sort of key lists (incl. half-way failing sorts), one-level flattening (children,
metadata, entries, kind, node type, entry type, unflatten), and the type cache under thousands of
transient classes with address reuse."""
import collections
import gc
import itertools
import os
import random
import time

import optree
from optree import typing as otyping

from .. import gen, runner, sx, world
from ..world import World, attempt, realize

PROP = 'C18'

PY_NT = otyping.is_namedtuple_class.__python_implementation__
PY_SS = otyping.is_structseq_class.__python_implementation__
PY_NT_FIELDS = otyping.namedtuple_fields.__python_implementation__
PY_SS_FIELDS = otyping.structseq_fields.__python_implementation__


class TupSub(tuple):
    pass


class StrSub(str):
    pass


# genuine namedtuple classes to derive from: a subclass inherits _fields / _make / _asdict and is a
# namedtuple class unless it overrides one of them with something that disqualifies it
NTBase = collections.namedtuple('NTBase', 'a b')
NTChild = type('NTChild', (NTBase,), {})


def make_class(spec, idx):
    """spec: dict of knobs -> a class (or a non-class)"""
    if spec['nonclass']:
        return [42, 'x', None, (1, 2), collections.namedtuple('Inst', 'a')(1)][idx % 5]
    base = {0: object, 1: tuple, 2: TupSub, 3: list, 4: NTBase, 5: NTChild, 6: NTBase}[spec['base']]
    ns = {}
    f = spec['fields']
    if f == 1:
        ns['_fields'] = ('a', 'b')
    elif f == 2:
        ns['_fields'] = TupSub(('a', 'b'))
    elif f == 3:
        ns['_fields'] = ['a', 'b']
    elif f == 4:
        ns['_fields'] = ('a', StrSub('b'))
    elif f == 5:
        ns['_fields'] = ('a', 3)
    elif f == 6:
        ns['_fields'] = ()
    if spec['make'] == 1:
        ns['_make'] = classmethod(lambda c, it: c(it))
    elif spec['make'] == 2:
        ns['_make'] = 5
    if spec['asdict'] == 1:
        ns['_asdict'] = lambda self: {}
    elif spec['asdict'] == 2:
        ns['_asdict'] = 'no'
    for name, k in (('n_fields', spec['nf']), ('n_sequence_fields', spec['nsf']), ('n_unnamed_fields', spec['nuf'])):
        if k == 1:
            ns[name] = 2
        elif k == 2:
            ns[name] = True
        elif k == 3:
            ns[name] = 'two'
    if spec['base'] == 6:
        # the overriding traits come from a mixin listed BEFORE the genuine namedtuple base
        mixin = type(f'Mixin{idx}', (), ns)
        return type(f'Gen{idx}', (mixin, base), {})
    return type(f'Gen{idx}', (base,), ns)


def measure(cls):
    """the trait vector of Typing.v, measured on the real object"""
    def akind(v, typ):
        if v is MISSING:
            return 0
        if type(v) is typ:
            return 1
        if isinstance(v, typ):
            return 2
        return 3
    MISSING = object()
    is_type = isinstance(cls, type)
    if not is_type:
        return (0, 0, 0, 0, 0, 0, 0, 0, 0, 0, 0)
    fields = getattr(cls, '_fields', MISSING)
    all_str = int(isinstance(fields, tuple) and all(type(x) is str for x in fields))
    return (1, int(issubclass(cls, tuple)), akind(fields, tuple), all_str,
            int(callable(getattr(cls, '_make', None))), int(callable(getattr(cls, '_asdict', None))),
            int(cls.__bases__ == (tuple,)),
            akind(getattr(cls, 'n_fields', MISSING), int), akind(getattr(cls, 'n_sequence_fields', MISSING), int),
            akind(getattr(cls, 'n_unnamed_fields', MISSING), int),
            int(bool(cls.__flags__ & otyping.Py_TPFLAGS_BASETYPE)))


def class_universe(rng, n):
    out = []
    # real ones first
    reals = [collections.namedtuple('RealNT', 'a b'), type('SubNT', (collections.namedtuple('BaseNT', 'x'),), {}),
             os.terminal_size, time.struct_time, type(os.stat('.')), tuple, list, dict, int, object, TupSub,
             collections.OrderedDict, collections.deque]
    for c in reals:
        out.append(c)
    knobs = dict(nonclass=[0] * 15 + [1], base=[0, 1, 1, 1, 2, 3, 4, 4, 5, 6], fields=[0, 1, 1, 1, 2, 3, 4, 5, 6],
                 make=[0, 1, 1, 2], asdict=[0, 1, 1, 2], nf=[0, 0, 1, 2, 3], nsf=[0, 0, 1, 2, 3], nuf=[0, 0, 1, 2, 3])
    for i in range(n):
        spec = {k: rng.choice(v) for k, v in knobs.items()}
        out.append(make_class(spec, i))
    # one-trait-missing look-alikes of a namedtuple, systematically
    base_spec = dict(nonclass=0, base=1, fields=1, make=1, asdict=1, nf=0, nsf=0, nuf=0)
    i = n
    for k, vals in knobs.items():
        for v in set(vals):
            spec = dict(base_spec)
            spec[k] = v
            i += 1
            out.append(make_class(spec, i))
    # subclasses of a genuine namedtuple class (directly, as a grandchild, through a mixin listed first)
    # overriding one trait at a time
    for b in (4, 5, 6):
        for k, vals in knobs.items():
            if k in ('nonclass', 'base'):
                continue
            for v in set(vals):
                spec = dict(nonclass=0, base=b, fields=0, make=0, asdict=0, nf=0, nsf=0, nuf=0)
                spec[k] = v
                i += 1
                out.append(make_class(spec, i))
    return out


def twin_classifiers(res, classes):
    cmds, obs = [], []
    for cls in classes:
        res.evaluations += 1
        e_nt, p_nt = optree.is_namedtuple_class(cls), PY_NT(cls)
        e_ss, p_ss = optree.is_structseq_class(cls), PY_SS(cls)
        case = f'class {cls!r} traits={measure(cls)}'
        if e_nt != p_nt:
            res.fail('is_namedtuple_class: engine and Python twin disagree', case, f'engine={e_nt} python={p_nt}')
        if e_ss != p_ss:
            res.fail('is_structseq_class: engine and Python twin disagree', case, f'engine={e_ss} python={p_ss}')
        # the other recognisers built on top
        if isinstance(cls, type):
            for name in ('is_namedtuple', 'is_structseq'):
                f = getattr(otyping, name)
                if f(cls) != f.__python_implementation__(cls):
                    res.fail(f'{name}: engine and Python twin disagree', case)
            fe = attempt(lambda: optree.namedtuple_fields(cls))
            fp = attempt(lambda: PY_NT_FIELDS(cls))
            if (fe[0], fe[1] if fe[0] == 0 else fe[1:]) != (fp[0], fp[1] if fp[0] == 0 else fp[1:]):
                res.fail('namedtuple_fields: engine and Python twin disagree', case, f'{fe} vs {fp}')
            se = attempt(lambda: optree.structseq_fields(cls))
            sp = attempt(lambda: PY_SS_FIELDS(cls))
            if (se[0], se[1] if se[0] == 0 else se[1:]) != (sp[0], sp[1] if sp[0] == 0 else sp[1:]):
                res.fail('structseq_fields: engine and Python twin disagree', case, f'{se} vs {sp}')
            # the instance forms: an instance is recognised exactly when its class is, a class is never an instance
            for name, cls_ans in (('is_namedtuple_instance', e_nt), ('is_structseq_instance', e_ss)):
                f = getattr(otyping, name)
                if f(cls) != f.__python_implementation__(cls):
                    res.fail(f'{name}: engine and Python twin disagree on a class object', case)
                if f(cls) != (optree.is_namedtuple_class(type(cls)) if 'named' in name else optree.is_structseq_class(type(cls))):
                    res.fail(f'{name} of a class object is not the classification of its metaclass', case)
            inst0 = None
            for mk in (lambda: cls(*range(len(cls._fields))), lambda: cls((1, 2)), lambda: cls(), lambda: cls(range(cls.n_sequence_fields))):
                try:
                    inst0 = mk()
                    break
                except Exception:  # noqa: BLE001
                    continue
            if inst0 is not None and type(inst0) is cls:
                for name, cls_ans in (('is_namedtuple_instance', e_nt), ('is_structseq_instance', e_ss),
                                      ('is_namedtuple', e_nt), ('is_structseq', e_ss)):
                    f = getattr(otyping, name)
                    a, b = f(inst0), f.__python_implementation__(inst0)
                    if a != b or a != cls_ans:
                        res.fail(f'{name} of an instance differs from its twin / from the classification of its class', case,
                                 f'engine={a} python={b} class={cls_ans}')
            # what flatten does with an instance agrees with the classification
            if e_nt and not e_ss:
                try:
                    inst = cls(*range(len(cls._fields))) if cls._fields else cls()
                except Exception:  # noqa: BLE001
                    inst = None
                if inst is not None:
                    k = int(optree.tree_structure(inst).kind)
                    if k != 6:
                        res.fail('an instance of a class recognised as namedtuple is not flattened as one', case, k)
        cmds.append((13, measure(cls)))
        obs.append((int(e_nt), int(p_nt), int(e_ss), int(p_ss)))
    mod = runner.run_model(cmds)
    for c, a, b in zip(cmds, obs, mod):
        res.compare(c, a, b, 'cmd_traits')
        res.note_input(c, True)


def sort_twins(res, rng, n):
    """engine order (leaf order / metadata of a flattened dict) vs optree.utils.total_order_sorted"""
    from optree.utils import total_order_sorted
    # exhaustive permutations of half-way failing key sets
    sets = [[(0, 1), (0, 2), (0, 3), (7, 0, 1), (7, 0, 2)], [(0, 1), (0, 3), (0, 2), (5, 1), (5, 2)],
            [(2, 97), (0, 1), (7, 1, 1), (7, 1, 2)], [(6, 0, 1), (6, 0, 2), (7, 0, 1), (7, 0, 3), (0, 5)]]
    lists = [list(p) for s_ in sets for p in itertools.permutations(s_)]
    for i in range(n):
        lists.append(gen.gen_keys(rng, rng.randrange(0, 7)))
    for ks in lists:
        res.evaluations += 1
        keys = [world.real_key(k) for k in ks]
        d = dict((k, i) for i, k in enumerate(keys))
        want = total_order_sorted(keys)
        sp = optree.tree_structure(d)
        got = sp.entries()
        if len(got) != len(want) or any(a is not b for a, b in zip(got, want)):
            res.fail('total-order sort: engine order differs from optree.utils.total_order_sorted', sx.dump(tuple(ks)),
                     f'engine={got} python={want}')
        one = optree.tree_flatten_one_level(d)
        if list(one.entries) != list(got):
            res.fail('tree_flatten_one_level key order differs from the engine', sx.dump(tuple(ks)))
        res.note_input(tuple(ks), len(ks) >= 2)


def one_level_twins(res, rng, limit, n):
    for i in range(n):
        cfg = gen.gen_cfg(rng, limit)
        cfg = (cfg[0], cfg[1], 0, cfg[3], cfg[4], cfg[5])
        g = gen.TreeGen(rng, world.STRUCTSEQ_ARITY, max_nodes=10, max_depth=3, max_arity=5)
        o = g.tree()
        case = (2, cfg, o)
        with World(cfg) as w:
            tree = realize(o, random.Random(rng.getrandbits(32)), {})
            kw = w.kw()
            f = attempt(lambda: optree.tree_flatten(tree, **kw))
            if f[0] != 0:
                continue
            sp = f[1][1]
            res.evaluations += 1
            one = attempt(lambda: optree.tree_flatten_one_level(tree, **kw))
            if sp.is_leaf():
                if one[0] == 0:
                    res.fail('tree_flatten_one_level accepted a leaf', case)
                continue
            if one[0] != 0:
                res.fail('tree_flatten_one_level raised on an internal node', case, one)
                continue
            out = one[1]
            node = sp.__getstate__()[0][-1]
            ch_engine = sp.flatten_up_to(tree) if sp.is_one_level() else sp.one_level().flatten_up_to(tree)
            if len(out.children) != len(ch_engine) or any(a is not b for a, b in zip(out.children, ch_engine)):
                res.fail('tree_flatten_one_level children differ from the engine', case)
            if list(out.entries) != list(sp.entries()):
                res.fail('tree_flatten_one_level entries differ from the engine', case, f'{out.entries} vs {sp.entries()}')
            md_engine = node[2]
            if int(sp.kind) in (5, 7, 8, 9, 0):
                if out.metadata != md_engine:
                    res.fail('tree_flatten_one_level metadata differs from the engine', case, f'{out.metadata} vs {md_engine}')
            if out.type is not sp.type or int(out.kind) != int(sp.kind):
                res.fail('tree_flatten_one_level type / kind differ from the engine', case)
            accs = sp.one_level().accessors()
            if accs and out.path_entry_type is not type(accs[0][0]) and int(sp.kind) != 0:
                res.fail('tree_flatten_one_level path entry type differs from the engine', case)
            rebuilt = attempt(lambda: out.unflatten_func(out.metadata, out.children))
            eng = sp.one_level().unflatten(ch_engine)
            if rebuilt[0] != 0:
                res.fail('the unflatten function of tree_flatten_one_level raised', case, rebuilt)
            elif int(sp.kind) in (5, 8):
                # dict / defaultdict: the one-level API carries the keys in sorted order only (no
                # original insertion order), so the rebuilt mapping is compared as a mapping
                rb = rebuilt[1]
                if type(rb) is not type(eng) or set(map(id, rb.keys())) != set(map(id, eng.keys())) \
                        or any(rb[k] is not eng[k] for k in eng) \
                        or getattr(rb, 'default_factory', None) is not getattr(eng, 'default_factory', None):
                    res.fail('the unflatten function of tree_flatten_one_level builds a different node', case)
            elif world.abstract(rebuilt[1]) != world.abstract(eng):
                res.fail('the unflatten function of tree_flatten_one_level builds a different node', case)


def one_level_registered_tuples(res):
    """namedtuple classes, namedtuple subclasses and struct-sequence types that are THEMSELVES registered as
    custom nodes (globally, in a namespace, in both): the Python registry lookup behind
    tree_flatten_one_level must find the explicit registration exactly where the engine does"""
    import warnings
    P = collections.namedtuple('P18', 'x y z')
    PS = type('PS18', (collections.namedtuple('PB18', 'a b'),), {'__slots__': ()})
    classes = [(P, lambda: P(world.Opaque(1), world.Opaque(2), world.Opaque(3))),
               (PS, lambda: PS(world.Opaque(4), world.Opaque(5))),
               (time.struct_time, lambda: time.struct_time([world.Opaque(10 + i) for i in range(9)]))]
    for cls, mk in classes:
        for where in (('g',), ('n',), ('g', 'n')):
            done = []
            with warnings.catch_warnings():
                warnings.simplefilter('ignore')
                try:
                    for wns in where:
                        tag = f'{cls.__name__}/{wns}'
                        optree.register_pytree_node(
                            cls, lambda x, tag=tag: (tuple(reversed(tuple(x))), tag, tuple(f'e{i}' for i in range(len(tuple(x))))),
                            lambda md, ch, cls=cls: cls(*reversed(tuple(ch))) if cls is not time.struct_time else cls(tuple(reversed(tuple(ch)))),
                            namespace=world.GLOBAL if wns == 'g' else 'r18')
                        done.append(wns)
                    x = mk()
                    for q in ('', 'r18', 'other18'):
                        for nil in (False, True):
                            res.evaluations += 1
                            case = f'class {cls.__name__} registered in {where} queried in namespace {q!r} none_is_leaf={nil}'
                            ls, sp = optree.tree_flatten(x, namespace=q, none_is_leaf=nil)
                            one = attempt(lambda: optree.tree_flatten_one_level(x, namespace=q, none_is_leaf=nil))
                            if one[0] != 0:
                                res.fail('tree_flatten_one_level raised on an internal node', case, one)
                                continue
                            out = one[1]
                            if len(out.children) != len(ls) or any(a is not b for a, b in zip(out.children, ls)):
                                res.fail('tree_flatten_one_level children differ from the engine', case,
                                         f'{[getattr(c, "i", c) for c in out.children]} vs {[getattr(c, "i", c) for c in ls]}')
                            if list(out.entries) != list(sp.entries()):
                                res.fail('tree_flatten_one_level entries differ from the engine', case, f'{out.entries} vs {sp.entries()}')
                            if out.type is not sp.type or int(out.kind) != int(sp.kind):
                                res.fail('tree_flatten_one_level type / kind differ from the engine', case, f'{out.kind} vs {sp.kind}')
                            md_engine = sp.__getstate__()[0][-1][2]
                            if int(sp.kind) == 0 and out.metadata != md_engine:
                                res.fail('tree_flatten_one_level metadata differs from the engine', case, f'{out.metadata} vs {md_engine}')
                            e = optree.register_pytree_node.get(cls, namespace=q if q else world.GLOBAL)
                            if (e is None) or list(e.flatten_func(x)[0]) != list(out.children):
                                res.fail('register_pytree_node.get(cls) does not describe what flattening does', case)
                finally:
                    for wns in done:
                        optree.unregister_pytree_node(cls, namespace=world.GLOBAL if wns == 'g' else 'r18')


def cache_histories(res, rng, rounds):
    """thousands of transient classes, freed between queries, addresses reused by the other kind"""
    reuse = 0
    for r in range(rounds):
        res.evaluations += 1
        kind = r % 2
        def mk(kind, tag):
            if kind == 0:
                return collections.namedtuple(f'T{tag}', 'a b')
            return make_class(dict(nonclass=0, base=1, fields=1, make=0, asdict=0, nf=0, nsf=0, nuf=0), tag)
        a = mk(kind, r)
        addr = id(a)
        ea = optree.is_namedtuple_class(a)
        if ea != PY_NT(a):
            res.fail('type cache: stale classification', f'round {r}', f'engine={ea} python={PY_NT(a)}')
        inst = a(1, 2) if kind == 0 else a((1, 2))
        k1 = int(optree.tree_structure(inst).kind)
        del a, inst
        gc.collect()
        b = mk(1 - kind, r + 100000)
        if id(b) == addr:
            reuse += 1
        eb = optree.is_namedtuple_class(b)
        if eb != PY_NT(b):
            res.fail('type cache: stale classification after the address of a freed class was reused',
                     f'round {r}', f'engine={eb} python={PY_NT(b)} reused={id(b) == addr}')
        instb = b(1, 2) if kind == 1 else b((1, 2))
        kb = int(optree.tree_structure(instb).kind)
        if (kb == 6) != PY_NT(b):
            res.fail('type cache: flatten classifies an instance of a class at a reused address wrongly', f'round {r}', kb)
        if optree.is_structseq_class(b) != PY_SS(b):
            res.fail('type cache: stale struct-sequence classification', f'round {r}')
        del b, instb
    res.count('cache_rounds', rounds)
    res.count('cache_address_reused', reuse)


def run(res, tier, seed):
    rng = random.Random(seed * 1000003 + 18)
    limit = optree.MAX_RECURSION_DEPTH
    classes = class_universe(rng, 600 if tier == 'quick' else 6000)
    twin_classifiers(res, classes)
    sort_twins(res, rng, 600 if tier == 'quick' else 20000)
    one_level_twins(res, rng, limit, 600 if tier == 'quick' else 10000)
    one_level_registered_tuples(res)
    cache_histories(res, rng, 5000 if tier == 'quick' else 60000)
    # again after the cache has seen thousands of classes
    twin_classifiers(res, classes[:200])
    res.sample('class universe: namedtuple look-alikes with every trait toggled (base, _fields kind, _make, _asdict, n_* counters), non-classes, real struct sequences')


if __name__ == '__main__':
    runner.main(__import__('harness.props.c18', fromlist=['x']))
