"""C08 — treespec inspection, transform, compose (cmd 2 and cmd 3)."""
import random
import optree
from .. import runner
from . import specops

PROP = 'C08'


def run(res, tier, seed):
    rng = random.Random(seed * 1000003 + 8)
    limit = optree.MAX_RECURSION_DEPTH
    specops.run_inspect(res, rng, 1200 if tier == 'quick' else 20000, limit)
    specops.run_pairs(res, rng, 1200 if tier == 'quick' else 20000, limit)


if __name__ == '__main__':
    runner.main(__import__('harness.props.c08', fromlist=['x']))
