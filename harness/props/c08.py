"""C08 — treespec inspection, constructors, transform and compose are consistent.
Correspondence: cmd 2 (inspect) and cmd 3 (pair: compose, transform, broadcast).
Oracle: counts sum, rebuild through transform and through every treespec_* constructor, compose
against an actually composed tree, repr notation."""
import random
from collections import OrderedDict, defaultdict, deque

import optree

from .. import gen, runner, sx, world
from ..world import World, realize, attempt
from . import specops
from ..implops import res_spec

PROP = 'C08'


def rebuild_with_constructor(sp, children, kw):
    k = int(sp.kind)
    nl, ns = kw['none_is_leaf'], kw['namespace']
    ckw = dict(none_is_leaf=nl, namespace=ns)
    if k == 3:
        return optree.treespec_tuple(children, **ckw)
    if k == 4:
        return optree.treespec_list(children, **ckw)
    if k == 5:
        return optree.treespec_dict(dict(zip(sp.entries(), children)), **ckw)
    if k == 7:
        return optree.treespec_ordereddict(OrderedDict(zip(sp.entries(), children)), **ckw)
    if k == 8:
        factory = sp.__getstate__()[0][-1][2][0]
        return optree.treespec_defaultdict(factory, dict(zip(sp.entries(), children)), **ckw)
    if k == 9:
        maxlen = sp.__getstate__()[0][-1][2]
        return optree.treespec_deque(children, maxlen=maxlen, **ckw)
    if k == 6:
        return optree.treespec_namedtuple(sp.type(*children), **ckw)
    if k == 10:
        return optree.treespec_structseq(sp.type(children), **ckw)
    if k == 2:
        return optree.treespec_none(**ckw)
    return None


def functional_forms(res, case, sp, ch):
    """the treespec_* functions are the methods: same value, same exception type, on every index in [-n-1, n]"""
    def same(a, b):
        return a[0] == b[0] and (a[1] == b[1] if a[0] == 0 else a[1:] == b[1:])
    n = sp.num_children
    for i in range(-n - 1, n + 1):
        if not same(attempt(lambda: optree.treespec_child(sp, i)), attempt(lambda: sp.child(i))):
            res.fail('treespec_child differs from PyTreeSpec.child', case, i)
        if not same(attempt(lambda: optree.treespec_entry(sp, i)), attempt(lambda: sp.entry(i))):
            res.fail('treespec_entry differs from PyTreeSpec.entry', case, i)
    pairs = [
        ('treespec_children', lambda: optree.treespec_children(sp), lambda: sp.children()),
        ('treespec_entries', lambda: optree.treespec_entries(sp), lambda: sp.entries()),
        ('treespec_paths', lambda: optree.treespec_paths(sp), lambda: sp.paths()),
        ('treespec_accessors', lambda: optree.treespec_accessors(sp), lambda: sp.accessors()),
        ('treespec_one_level', lambda: optree.treespec_one_level(sp), lambda: sp.one_level()),
        ('treespec_is_leaf', lambda: optree.treespec_is_leaf(sp), lambda: sp.is_leaf()),
        ('treespec_is_leaf(strict=False)', lambda: optree.treespec_is_leaf(sp, strict=False), lambda: sp.is_leaf(strict=False)),
        ('treespec_is_strict_leaf', lambda: optree.treespec_is_strict_leaf(sp), lambda: sp.is_leaf(strict=True)),
        ('treespec_is_one_level', lambda: optree.treespec_is_one_level(sp), lambda: sp.is_one_level()),
        ('treespec_transform', lambda: optree.treespec_transform(sp, lambda s: s, lambda s: s), lambda: sp.transform(lambda s: s, lambda s: s)),
        ('treespec_transform(None, f_leaf)', lambda: optree.treespec_transform(sp, None, lambda s: optree.treespec_tuple([s, s], none_is_leaf=sp.none_is_leaf)),
         lambda: sp.transform(None, lambda s: optree.treespec_tuple([s, s], none_is_leaf=sp.none_is_leaf))),
    ]
    for name, f, g in pairs:
        a, b = attempt(f), attempt(g)
        if not same(a, b):
            res.fail(f'{name} differs from the PyTreeSpec method', case, f'{str(a)[:150]} vs {str(b)[:150]}')
    # strict leaf = the treespec of a single leaf; non-strict also None / empty containers (no children, no leaves... or one leaf)
    if sp.is_leaf() != (sp.num_nodes == 1 and sp.num_leaves == 1):
        res.fail('is_leaf(strict=True) is not "one node, one leaf"', case)
    if sp.is_leaf(strict=False) != (sp.num_nodes == 1):
        res.fail('is_leaf(strict=False) is not "one node"', case)


class _ListSub(list):
    pass


def constructor_argument_forms(res, case, ch, kw):
    """treespec_tuple / treespec_list / treespec_dict build a tuple / list / dict node whatever container the
    child treespecs are handed over in (a namedtuple, a list subclass, an OrderedDict, a defaultdict, an iterator)"""
    ckw = dict(none_is_leaf=kw['none_is_leaf'], namespace=kw['namespace'])
    kids = list(ch)[:3] or [optree.treespec_leaf(**ckw)]
    n = len(kids)
    NT = world.nt_class(0, n)
    keys = [f'k{n - i}' for i in range(n)]          # insertion order differs from sorted order
    pairs = list(zip(keys, kids))
    forms = [
        ('treespec_tuple', optree.treespec_tuple, tuple(kids), [NT(*kids), list(kids), iter(list(kids)), _ListSub(kids)], 3),
        ('treespec_list', optree.treespec_list, list(kids), [_ListSub(kids), tuple(kids), NT(*kids), iter(list(kids))], 4),
        ('treespec_dict', optree.treespec_dict, dict(pairs), [OrderedDict(pairs), defaultdict(int, pairs), list(pairs)], 5),
    ]
    for name, fn, plain, others, kind in forms:
        base = attempt(lambda: fn(plain, **ckw))
        if base[0] != 0:
            res.fail(f'{name} raised on a plain container of child treespecs', case, base)
            continue
        if int(base[1].kind) != kind:
            res.fail(f'{name} does not build a node of its own kind', case, f'{base[1]!r}')
        for other in others:
            r = attempt(lambda: fn(other, **ckw))
            if r[0] != 0 or r[1] != base[1] or int(r[1].kind) != kind or repr(r[1]) != repr(base[1]) \
                    or r[1].entries() != base[1].entries() or r[1].__getstate__() != base[1].__getstate__():
                res.fail(f'{name} depends on the container the children are handed over in', case,
                         f'{type(other).__name__}: {str(r)[:200]} vs {base[1]!r}')


def oracle_inspect(res, cfg, o, rng):
    case = (2, cfg, o)
    with World(cfg) as w:
        tree = realize(o, rng, {})
        kw = w.kw()
        f = attempt(lambda: optree.tree_flatten(tree, **kw))
        if f[0] != 0:
            return
        ls, sp = f[1]
        res.evaluations += 1
        ch = sp.children()
        if not sp.is_leaf():
            if sum(c.num_leaves for c in ch) != sp.num_leaves or sum(c.num_nodes for c in ch) + 1 != sp.num_nodes:
                res.fail('children counts do not sum to the parent', case)
            if len(ch) != sp.num_children or len(sp.entries()) != sp.num_children:
                res.fail('number of children/entries differs from num_children', case)
            it = iter(ch)
            rb = sp.one_level().transform(None, lambda _leaf: next(it))
            if rb != sp or rb.paths() != sp.paths() or rb.__getstate__()[0] != sp.__getstate__()[0]:
                res.fail('one_level + children through transform does not give the treespec back', case, f'{sp} vs {rb}')
            if int(sp.kind) != 0:
                # dict-like constructors sort the keys unless the insertion-ordered mode is on: compare as ==
                rc = attempt(lambda: rebuild_with_constructor(sp, ch, kw))
                if rc[0] != 0:
                    res.fail('treespec constructor raised on the real children', case, rc)
                elif rc[1] is not None and (rc[1] != sp or rc[1].paths() != sp.paths()):
                    res.fail('treespec constructor applied to the children gives a different treespec', case, f'{sp} vs {rc[1]}')
        if not sp.is_leaf():
            # the generic constructor on the real container holding the child treespecs
            coll = attempt(lambda: sp.unflatten([None] * 0) if False else optree.tree_unflatten(sp.one_level(), ch))
            if coll[0] == 0:
                rc2 = attempt(lambda: optree.treespec_from_collection(coll[1], none_is_leaf=kw['none_is_leaf'], namespace=kw['namespace']))
                if rc2[0] != 0:
                    res.fail('treespec_from_collection raised on the real children', case, rc2)
                elif rc2[1] != sp or rc2[1].paths() != sp.paths() or rc2[1].entries() != sp.entries() \
                        or [a.path for a in rc2[1].accessors()] != [a.path for a in sp.accessors()]:
                    res.fail('treespec_from_collection applied to the children gives a different treespec / paths / entries', case,
                             f'{sp.paths()[:3]} vs {rc2[1].paths()[:3]}')
            want_one = all(c.is_leaf() for c in ch)
            if sp.is_one_level() != want_one or optree.treespec_is_one_level(sp) != want_one:
                res.fail('is_one_level does not say whether all children are leaves', case)
        elif sp.is_one_level():
            res.fail('is_one_level is true for a leaf', case)
        functional_forms(res, case, sp, ch)
        constructor_argument_forms(res, case, ch, kw)
        if len(sp) != sp.num_leaves:
            res.fail('len(treespec) differs from num_leaves', case)
        if sp.transform() != sp or sp.transform(lambda s: s, lambda s: s) != sp:
            res.fail('transform with identity functions is not the identity', case)
        s = str(sp)
        if ('NoneIsLeaf' in s) != bool(cfg[0]):
            res.fail('repr NoneIsLeaf suffix wrong', case, s)
        if ('namespace=' in s) != (sp.namespace != ''):
            res.fail('repr namespace suffix wrong', case, s)
        if s.count('*') != sp.num_leaves and cfg[2] == 0:
            res.fail('repr does not show one * per leaf', case, s)


def oracle_pair(res, case, t1, t2, s1, s2, kw1, kw2, out):
    res.evaluations += 1
    c = out[11]
    if c[0] == 0:
        comp = s1.compose(s2)
        if comp.num_leaves != s1.num_leaves * s2.num_leaves:
            res.fail('compose: num_leaves do not multiply', case)
        if comp.num_nodes != (s1.num_nodes - s1.num_leaves) + s1.num_leaves * s2.num_nodes:
            res.fail('compose: num_nodes formula violated', case)
        # structure of an s1-shaped tree whose every leaf is an s2-shaped tree
        inner = s2.unflatten([world.Opaque(70000 + i) for i in range(s2.num_leaves)])
        big = s1.unflatten([inner] * s1.num_leaves)
        kw = dict(kw1)
        kw.pop('is_leaf', None)
        # flatten under the merged namespace
        kw['namespace'] = comp.namespace
        got = attempt(lambda: optree.tree_structure(big, **kw))
        if got[0] == 0 and got[1] != comp and case[1][3] == case[3][3] and not case[1][4] and kw1['namespace'] == comp.namespace and kw2['namespace'] == comp.namespace and kw1.get('is_leaf') is None and kw2.get('is_leaf') is None \
                and s1.namespace in ('', comp.namespace) and s2.namespace in ('', comp.namespace):
            res.fail('compose differs from the structure of the composed tree', case, f'{comp} vs {got[1]}')
        tr = out[12]
        if tr[0] == 0 and s1.num_leaves > 0:
            trs = s1.transform(None, lambda _l: s2)
            if trs != comp:
                res.fail('transform replacing every leaf by s differs from compose(s)', case)
            elif trs.__getstate__() != comp.__getstate__() or repr(trs) != repr(comp):
                res.fail('transform replacing every leaf by s and compose(s) are == but differ in a field (namespace / repr / node data)',
                         case, f'{trs!r} vs {comp!r}')


def run(res, tier, seed):
    rng = random.Random(seed * 1000003 + 8)
    limit = optree.MAX_RECURSION_DEPTH
    n = 1200 if tier == 'quick' else 20000
    specops.run_inspect(res, rng, n, limit)
    specops.run_pairs(res, rng, n, limit, hook=oracle_pair)
    for i in range(n):
        cfg = gen.gen_cfg(rng, limit)
        g = gen.TreeGen(rng, world.STRUCTSEQ_ARITY, max_nodes=rng.choice([6, 15, 40]),
                        max_depth=rng.choice([3, 6, 10]), max_arity=rng.choice([2, 4, 7]))
        oracle_inspect(res, cfg, g.tree(), random.Random(rng.getrandbits(48)))
    # the array-level walk of Children() (cmd 21) against the arrays of the implementation's children
    cmds, obs = [], []
    for i in range(n):
        cfg = gen.gen_cfg(rng, limit)
        g = gen.TreeGen(rng, world.STRUCTSEQ_ARITY, max_nodes=rng.choice([6, 15, 40]),
                        max_depth=rng.choice([3, 6, 10]), max_arity=rng.choice([2, 4, 7]))
        t = g.tree()
        with World(cfg) as w:
            tree = realize(t, random.Random(i), {})
            f = attempt(lambda: optree.tree_flatten(tree, **w.kw()))
            if f[0] != 0:
                o = f
            else:
                ch = attempt(lambda: tuple(world.abs_spec(c)[0] for c in f[1][1].children()))
                o = ch
        cmds.append((21, cfg, t))
        obs.append(o)
        res.count('array_children_%s' % ('ok' if o[0] == 0 else 'err'))
    mod = runner.run_model(cmds)
    for c, a, b in zip(cmds, obs, mod):
        res.compare(c, a, b, 'cmd_arr_children')
    run_constructors(res, rng, n, limit)
    run_repr(res, rng, n, limit)
    run_transform_general(res, rng, n, limit)
    run_transform_both(res, rng, n, limit)


# ---------------------------------------------------------------- cmd 28: repr as the model's token list
LIT = ['*', 'None', '(', ')', ',', ', ', '[', ']', '{', '}', ': ', 'OrderedDict(', 'defaultdict(', ', {', '})',
       'deque([', ', maxlen=', 'CustomTreeNode(', '], [', '])', '=', 'PyTreeSpec(', ', NoneIsLeaf', ', namespace=']


def render(tokens):
    """the model's tokens as text: fixed pieces of the notation, and what Python prints for the objects"""
    out = []
    for t in tokens:
        if isinstance(t, int):
            out.append(LIT[t])
            continue
        tag = t[0]
        if tag == 1:
            out.append(repr(world.real_key(t[1])))
        elif tag == 2:
            out.append(world.nt_class(t[1], t[2]).__name__)
        elif tag == 3:
            out.append(world.nt_class(t[1], t[2])._fields[t[3]])
        elif tag == 4:
            cls = world.STRUCTSEQ[t[1]]
            mod = cls.__module__
            out.append(('' if mod in ('', '__main__', 'builtins', '__builtins__') else mod + '.') + cls.__qualname__)
        elif tag == 5:
            out.append(optree.structseq_fields(world.STRUCTSEQ[t[1]])[t[2]])
        elif tag == 6:
            out.append(world.CUST[t[1]].__name__)
        elif tag == 7:
            out.append(repr((t[1], t[2])))
        elif tag == 8:
            out.append(repr(world.FACTORIES[t[1]]))
        elif tag == 9:
            out.append(repr(t[1]))
        elif tag == 10:
            out.append(repr(world.NS_NAMES[t[1]]))
        else:
            out.append(f'<?{t}>')
    return ''.join(out)


def run_repr(res, rng, n, limit):
    cmds, obs = [], []
    for i in range(n):
        cfg = gen.gen_cfg(rng, limit)
        g = gen.TreeGen(rng, world.STRUCTSEQ_ARITY, max_nodes=rng.choice([4, 12, 30]), max_depth=rng.choice([2, 4, 7]),
                        max_arity=rng.choice([1, 2, 4]))
        o = g.tree()
        with World(cfg) as w:
            tree = realize(o, random.Random(i), {})
            r = attempt(lambda: repr(optree.tree_structure(tree, **w.kw())))
        cmds.append((28, cfg, o))
        obs.append((0, r[1]) if r[0] == 0 else r)
        res.note_input((cfg, o), gen.obj_internal(o) >= 2)
    mod = runner.run_model(cmds)
    for c, a, b in zip(cmds, obs, mod):
        if isinstance(b, tuple) and len(b) == 2 and b[0] == 0:
            b = (0, render(b[1]))
        res.compare(c, a, b, 'cmd_repr')
        res.count('repr_%s' % ('ok' if a[0] == 0 else 'err'))


def one_level_header(rng, g):
    """a header for a one-level collection and its number of children"""
    k = rng.choice(['tuple', 'list', 'dict', 'odict', 'ddict', 'deque', 'named', 'struct', 'custom', 'custom', 'none', 'unreg'])
    n = rng.randrange(0, 4)
    if k == 'tuple':
        return (1,), n
    if k == 'list':
        return (2,), n
    if k in ('dict', 'odict', 'ddict'):
        ks = gen.gen_keys(rng, n, rng.choice(['str', 'int', 'stage2', 'unsortable', 'num']))
        n = len(ks)
        return ((3, *ks) if k == 'dict' else (4, *ks) if k == 'odict' else (5, rng.randrange(0, 5), *ks)), n
    if k == 'deque':
        return ((6,) if rng.random() < 0.5 else (6, n + rng.randrange(0, 3))), n
    if k == 'named':
        return (7, rng.randrange(0, 4)), n
    if k == 'struct':
        i = rng.randrange(len(world.STRUCTSEQ_ARITY))
        return (8, i), world.STRUCTSEQ_ARITY[i]
    if k == 'none':
        return (0,), 0
    if k == 'unreg':
        return (9, 5, 0, (0,)), n
    cls = rng.randrange(0, 5)
    r = rng.random()
    if r < 0.5:
        eb = (rng.choice([0, 1]),)
    elif r < 0.8:
        eb = (2, *gen.gen_keys(rng, n if rng.random() < 0.8 else n + 1, 'str'))
    elif r < 0.9:
        eb = (3, rng.choice([0, 1, 4]))
    else:
        eb = (4, rng.randrange(1, 50))
    return (9, cls, rng.randrange(0, 5), eb), n


def run_constructors(res, rng, n, limit):
    """cmd 22: treespec_from_collection on one-level collections of treespecs"""
    cmds, obs = [], []
    for i in range(n):
        cfg = list(gen.gen_cfg(rng, limit))
        cfg[2] = 0
        cfg = tuple(cfg)
        g = gen.TreeGen(rng, world.STRUCTSEQ_ARITY, max_nodes=rng.choice([3, 8]), max_depth=3, max_arity=3)
        h, nch = one_level_header(rng, g)
        kids = []
        for j in range(nch):
            r = rng.random()
            nil_j = cfg[0] if r < 0.85 else 1 - cfg[0]
            ns_j = cfg[1] if rng.random() < 0.7 else rng.choice([0, 1, 2])
            kids.append((nil_j, ns_j, g.tree()))
        hobj = (1, h, *[(0, 1000 + j) for j in range(nch)])
        case = (22, cfg, hobj, tuple(kids))
        with World(cfg) as w:
            specs, ok = {}, True
            for j, (nil_j, ns_j, t) in enumerate(kids):
                tr = realize(t, random.Random(i * 31 + j), {})
                f = attempt(lambda: optree.tree_structure(tr, none_is_leaf=bool(nil_j), namespace=world.NS_NAMES[ns_j]))
                if f[0] != 0:
                    ok = False
                    break
                specs[1000 + j] = f[1]
            if not ok:
                o = (5,)
            else:
                coll = realize(hobj, random.Random(i), specs)
                r = attempt(lambda: optree.treespec_from_collection(coll, none_is_leaf=bool(cfg[0]),
                                                                    namespace=world.NS_NAMES[cfg[1]]))
                o = (0, world.abs_spec(r[1])) if r[0] == 0 else r
        cmds.append(case)
        obs.append(o)
        res.count('construct_%s' % ('skip' if o == (5,) else 'ok' if o[0] == 0 else 'err%s' % (o[1],)))
        res.note_input(case, nch >= 2)
    import warnings
    mod = runner.run_model(cmds)
    for c, a, b in zip(cmds, obs, mod):
        res.compare(c, a, b, 'cmd_construct')


if __name__ == '__main__':
    runner.main(__import__('harness.props.c08', fromlist=['x']))


# ---------------------------------------------------------------- cmd 30: transform with a different answer per leaf
def run_transform_general(res, rng, n, limit):
    """treespec.transform(None, f_leaf) where the i-th call of f_leaf returns the treespec of the i-th of a list of
    trees (each flattened under its own options): the array-level pass of TransformArr.v (arr_transform_gen) against
    the implementation, plus property-level oracles on the result (counts, paths, constant answers = compose)."""
    cmds, obs = [], []
    for i in range(n):
        c0 = gen.gen_cfg(rng, limit)
        g = gen.TreeGen(rng, world.STRUCTSEQ_ARITY, max_nodes=rng.choice([3, 6, 12]), max_depth=rng.choice([2, 3, 5]),
                        max_arity=rng.choice([2, 3, 4]))
        o0 = g.tree()
        gi = gen.TreeGen(rng, world.STRUCTSEQ_ARITY, max_nodes=rng.choice([1, 4, 9]), max_depth=rng.choice([1, 3, 4]),
                         max_arity=rng.choice([1, 2, 4]))
        # the answers' options: mostly compatible with the outer's (same none_is_leaf; namespace '' or one name)
        name = rng.choice([1, 2, 3]) if c0[1] == 0 else c0[1]
        mode = rng.random()
        same_answer = rng.random() < 0.12
        with World(c0) as w:
            tree = realize(o0, random.Random(i), {})
            kw0 = w.kw()
            f0 = attempt(lambda: optree.tree_flatten(tree, **kw0))
            if f0[0] != 0:
                res.count('transform_general_outer_not_flattenable')
                continue
            s0 = f0[1][1]
            inn, specs, bad = [], [], False
            first = None
            for j in range(s0.num_leaves):
                if same_answer and first is not None:
                    ci, oi = first
                else:
                    if mode < 0.8:
                        nsj = rng.choice([0, name, name]) if rng.random() < 0.97 else rng.choice([0, 1, 2, 3])
                        nilj = c0[0] if rng.random() < 0.985 else 1 - c0[0]
                    else:
                        nsj = rng.choice([0, 0, 1, 2, 3])
                        nilj = c0[0] if rng.random() < 0.9 else 1 - c0[0]
                    ci = (nilj, nsj, 0, c0[3], c0[4], c0[5])
                    oi = gi.tree()
                    first = first or (ci, oi)
                wi = World(ci)
                ti = realize(oi, random.Random(1000 * i + j), {})
                kwi = wi.kw()
                fi = attempt(lambda: optree.tree_flatten(ti, **kwi))
                if fi[0] != 0:
                    bad = True
                    break
                inn.append((ci, oi))
                specs.append(fi[1][1])
            if bad:
                res.count('transform_general_answer_not_flattenable')
                continue
            case = (30, c0, o0, tuple(inn))
            calls = []

            def f_leaf(leafspec, _it=iter(specs)):
                calls.append(leafspec)
                return next(_it)
            r = attempt(lambda: s0.transform(None, f_leaf))
            res.evaluations += 1
            if r[0] == 0:
                out = r[1]
                res.count('transform_general_ok')
                if len(calls) != s0.num_leaves or not all(c.is_leaf() for c in calls):
                    res.fail('transform: f_leaf is not called exactly once per leaf with a leaf treespec', case)
                if out.num_leaves != sum(s.num_leaves for s in specs):
                    res.fail('transform with per-leaf answers: num_leaves is not the sum of the answers\' leaves', case, repr(out))
                if out.num_nodes != s0.num_nodes - s0.num_leaves + sum(s.num_nodes for s in specs):
                    res.fail('transform with per-leaf answers: num_nodes is not outer internal nodes + the answers\' nodes', case, repr(out))
                want = [p + q for p, s in zip(s0.paths(), specs) for q in s.paths()]
                if out.paths() != want:
                    res.fail('transform with per-leaf answers: paths are not outer path + answer path, in leaf order', case,
                             f'{out.paths()} vs {want}')
                if out.none_is_leaf != s0.none_is_leaf:
                    res.fail('transform changed none_is_leaf', case)
                names = [s.namespace for s in [s0] + specs if s.namespace]
                if out.namespace != (names[0] if names else ''):
                    res.fail('transform: the namespace of the result is not the first non-empty namespace', case,
                             f'{out.namespace!r} vs {names}')
                if specs and all(s is specs[0] for s in specs):
                    comp = attempt(lambda: s0.compose(specs[0]))
                    if comp[0] != 0 or comp[1] != out or comp[1].__getstate__() != out.__getstate__():
                        res.fail('transform answering every leaf with s differs from compose(s)', case)
                    res.count('transform_general_constant')
            else:
                res.count('transform_general_err_%s' % (r[0],))
                # an error is justified only by an answer whose options disagree
                names = [s.namespace for s in [s0] + specs if s.namespace]
                if all(s.none_is_leaf == s0.none_is_leaf for s in specs) and len(set(names)) <= 1:
                    res.fail('transform with compatible per-leaf answers raised', case, str(r))
        cmds.append(case)
        obs.append((0, res_spec(r)))
        res.note_input(case, s0.num_leaves >= 2)
    mod = runner.run_model(cmds)
    for c, a, b in zip(cmds, obs, mod):
        res.compare(c, a, b, 'cmd_transform_general')


# ---------------------------------------------------------------- cmd 31: transform with both functions arbitrary
def node_answer(rng, arity):
    """an abstract one-level collection meant as the answer for an internal node of the given arity: mostly of that
    arity, sometimes of another arity, nested, or a bare leaf (all three must be rejected with ValueError)"""
    r = rng.random()
    k = arity
    if r < 0.06:
        k = max(0, arity + rng.choice([-1, 1, 2]))
    leaves = [(0, 900 + j) for j in range(k)]
    kind = rng.choice(['tuple', 'list', 'dict', 'odict', 'ddict', 'deque', 'named', 'custom', 'tuple', 'list'])
    if kind == 'tuple':
        h = (1,)
    elif kind == 'list':
        h = (2,)
    elif kind in ('dict', 'odict', 'ddict'):
        ks = gen.gen_keys(rng, k, rng.choice(['str', 'int', 'stage2']))
        if len(ks) != k:
            h = (1,)
        else:
            h = (3, *ks) if kind == 'dict' else (4, *ks) if kind == 'odict' else (5, rng.randrange(0, 5), *ks)
    elif kind == 'deque':
        h = (6,) if rng.random() < 0.5 else (6, k + rng.randrange(0, 3))
    elif kind == 'named':
        h = (7, rng.randrange(0, 4))
    else:
        h = (9, rng.randrange(0, 5), rng.randrange(0, 5), (rng.choice([0, 1]),))
    o = (1, h, *leaves)
    if 0.06 <= r < 0.10:
        o = (1, (1,), o) if rng.random() < 0.5 else (1, (2,), *leaves[:-1], (1, (1,), *leaves[-1:])) if leaves else o
    elif 0.10 <= r < 0.12:
        o = (0, 899)
    return o


def run_transform_both(res, rng, n, limit):
    """treespec.transform(f_node, f_leaf) with one answer per node in call order (the loop visits the node array in
    order): the array-level pass of TransformArr.v (arr_transform_all) against the implementation; oracles: the
    functions are called once per node of their class in array order with that node's one-level / leaf treespec;
    identity answers give back an identical treespec; the result keeps the children's structure."""
    cmds, obs = [], []
    for i in range(n):
        c0 = gen.gen_cfg(rng, limit)
        g = gen.TreeGen(rng, world.STRUCTSEQ_ARITY, max_nodes=rng.choice([3, 6, 12]), max_depth=rng.choice([2, 3, 5]),
                        max_arity=rng.choice([2, 3, 4]))
        o0 = g.tree()
        gi = gen.TreeGen(rng, world.STRUCTSEQ_ARITY, max_nodes=rng.choice([1, 4, 9]), max_depth=rng.choice([1, 3, 4]),
                         max_arity=rng.choice([1, 2, 4]))
        name = rng.choice([1, 2, 3]) if c0[1] == 0 else c0[1]
        mode = rng.choice(['leaf', 'node', 'both', 'both', 'identity'])
        with World(c0) as w:
            tree = realize(o0, random.Random(i), {})
            kw0 = w.kw()
            f0 = attempt(lambda: optree.tree_flatten(tree, **kw0))
            if f0[0] != 0:
                res.count('transform_both_outer_not_flattenable')
                continue
            s0 = f0[1][1]
            nodes = s0.__getstate__()[0]
            answers, specs, bad = [], [], False
            for j, nd in enumerate(nodes):
                is_leaf = int(nd[0]) == int(optree.PyTreeKind.LEAF)
                absent = (is_leaf and mode == 'node') or (not is_leaf and mode == 'leaf')
                if absent or mode == 'identity' or rng.random() < 0.35:
                    answers.append(())
                    specs.append(None)
                    continue
                nsj = rng.choice([0, name, name]) if rng.random() < 0.97 else rng.choice([0, 1, 2, 3])
                nilj = c0[0] if rng.random() < 0.985 else 1 - c0[0]
                ci = (nilj, nsj, 0, c0[3], c0[4], c0[5])
                oi = gi.tree() if is_leaf else node_answer(rng, nd[1])
                wi = World(ci)
                ti = realize(oi, random.Random(1000 * i + j), {})
                kwi = wi.kw()
                fi = attempt(lambda: optree.tree_flatten(ti, **kwi))
                if fi[0] != 0:
                    bad = True
                    break
                answers.append((ci, oi))
                specs.append(fi[1][1])
            if bad:
                res.count('transform_both_answer_not_flattenable')
                continue
            case = (31, c0, o0, tuple(answers))
            calls = []
            it = iter(specs)

            def make(which):
                def f(arg):
                    calls.append((which, arg))
                    a = next(it)
                    return arg if a is None else a
                return f
            # an absent function consumes its (None) answers without being called
            def call():
                fn = None if mode == 'leaf' else make('node')
                fl = None if mode == 'node' else make('leaf')
                if fn is None or fl is None:
                    # keep the answer iterator aligned: the absent function's positions hold None
                    order = [int(nd[0]) == int(optree.PyTreeKind.LEAF) for nd in nodes]
                    seq = [sp for sp, lf in zip(specs, order) if (lf and fl is not None) or (not lf and fn is not None)]
                    it2 = iter(seq)

                    def mk(which):
                        def f(arg):
                            calls.append((which, arg))
                            a = next(it2)
                            return arg if a is None else a
                        return f
                    fn = None if fn is None else mk('node')
                    fl = None if fl is None else mk('leaf')
                return s0.transform(fn, fl)
            r = attempt(call)
            res.evaluations += 1
            res.count('transform_both_mode_' + mode)
            if r[0] == 0:
                out = r[1]
                res.count('transform_both_ok')
                want_calls = [('leaf' if int(nd[0]) == int(optree.PyTreeKind.LEAF) else 'node') for nd in nodes]
                want_calls = [c for c in want_calls if not ((c == 'leaf' and mode == 'node') or (c == 'node' and mode == 'leaf'))]
                if [c[0] for c in calls] != want_calls:
                    res.fail('transform does not call f_node / f_leaf once per node of its class in array order', case)
                elif any((c[0] == 'leaf') != c[1].is_leaf() or (c[0] == 'node' and not c[1].is_one_level()) for c in calls):
                    res.fail('transform hands a function something else than the leaf / one-level treespec of the node', case)
                for sp, nd in zip(specs, nodes):
                    if sp is not None and int(nd[0]) != int(optree.PyTreeKind.LEAF) and \
                            not (sp.is_one_level() and sp.num_children == nd[1]):
                        res.fail('transform accepted, for an internal node, an answer that is not a one-level treespec of '
                                 'the node\'s arity', case, f'arity {nd[1]}: {sp!r}')
                        break
                if all(sp is None for sp in specs):
                    if out != s0 or out.__getstate__() != s0.__getstate__() or out.paths() != s0.paths():
                        res.fail('transform with identity functions is not the identity', case, f'{out!r} vs {s0!r}')
                    res.count('transform_both_identity')
                if all(sp is None for sp, nd in zip(specs, nodes) if int(nd[0]) == int(optree.PyTreeKind.LEAF)):
                    # only headers were replaced: counts are unchanged
                    if out.num_leaves != s0.num_leaves or out.num_nodes != s0.num_nodes:
                        res.fail('transform replacing only node headers changed the counts', case)
            else:
                res.count('transform_both_err_%s' % (r[0],))
        cmds.append(case)
        obs.append((0, res_spec(r)))
        res.note_input(case, s0.num_nodes >= 3)
    mod = runner.run_model(cmds)
    for c, a, b in zip(cmds, obs, mod):
        res.compare(c, a, b, 'cmd_transform_both')
