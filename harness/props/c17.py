"""C17 — concurrent use from several threads is equivalent to some sequential use.

Translator + model: harness/lockscan.py extracts one abstract program per engine-mutex scope from the
C++ sources of the working tree; the extracted Coq function Conc.wf (cmd 20) decides the lock
discipline on each of them (theorem C17_no_deadlock: programs that satisfy it never deadlock, under
every schedule).  A scope that does not satisfy it is a violation; the cooperative scheduler below then
looks for the schedule that deadlocks.

Oracles on the implementation (every scenario in a forked child with a kernel-level watchdog, because a
deadlocked thread keeps the GIL and freezes the interpreter):
  * cooperative scheduler: thread A is parked inside each Python-level callback the engine can reach
    (is_leaf, custom flatten / unflatten, mapped function, key __lt__/__hash__/__eq__, metadata
    __eq__/__repr__, key __reduce__, traverse visitors, metaclass attribute hooks consulted during
    classification at flatten time and at registration time, warning hook); while it is parked thread B
    runs each of ~20 API operations to completion; both results equal the solo results;
  * shared leaf iterator: consumer A parked inside is_leaf at every position, consumer B drains; every
    leaf is delivered exactly once; plus preemptive consumers with a microsecond switch interval;
  * same-key registrations overlapping inside the classification hook: exactly one succeeds;
  * a flatten overlapping an unregister / re-register sees, per node, the old or the new registration;
  * preemptive soak: many threads, switch interval 1e-6, random operations vs solo results while a
    thread registers and unregisters unrelated types.
"""
import os
import pickle
import random
import sys
import threading
import time
import warnings
from collections import OrderedDict, defaultdict, deque, namedtuple

import optree

from .. import lockscan, runner, sx, world
from . import c16

PROP = 'C17'
WAIT = 4.0
REPO = os.environ.get('VERIF_REPO', '/repo')


# ---------------------------------------------------------------- lock discipline (translator + model)
def run_lock_discipline(res):
    scopes = lockscan.scan(REPO)
    live = [s for s in scopes if not s['exempt']]
    progs, unknowns = [], []
    for s in live:
        p, unk = lockscan.program_of(s)
        progs.append(p)
        unknowns.append(unk)
    verdicts = runner.run_model([(20, tuple(progs))])[0] if progs else ()
    res.count('lock_scopes', len(live))
    res.count('lock_scopes_exempt', len(scopes) - len(live))
    table = []
    bad = []
    for s, p, unk, ok in zip(live, progs, unknowns, verdicts):
        res.evaluations += 1
        res.programs += 1
        row = f"{s['file']}:{s['line']} {s['function']} {s['guard']}{{{s['mutex']}}} -> {'wf' if ok else 'NOT wf: may run Python code with the mutex held: ' + ', '.join(unk)}"
        table.append(row)
        if not ok:
            bad.append((s, unk))
    if not live:
        res.fail('the translator found no engine mutex scope at all (sources moved?)', 'lockscan', '')
    res.notes.append('lock scopes extracted from the sources: ' + ' | '.join(table))
    for s in scopes:
        if s['exempt']:
            res.notes.append(f"exempt (atexit cleanup, not an API operation): {s['file']}:{s['line']} {s['function']}")
    return bad


# ---------------------------------------------------------------- callbacks that can park
class Parker:
    """A parks at its k-th tick (k = 1: the first), B may then run; B releases A"""

    def __init__(self, at=1):
        self.at = at
        self.n = 0
        self.parked = threading.Event()
        self.release = threading.Event()
        self.thread = None
        self.timed_out = False

    def tick(self):
        if threading.current_thread() is not self.thread:
            return
        self.n += 1
        if self.n == self.at:
            self.parked.set()
            if not self.release.wait(WAIT):
                self.timed_out = True


PARK = None     # the Parker of the current scenario


def tick():
    if PARK is not None:
        PARK.tick()


class PKey:
    __slots__ = ('v',)

    def __init__(self, v):
        self.v = v

    def __hash__(self):
        if HOOKS.get('hash'):
            tick()
        return hash(('PKey', self.v))

    def __eq__(self, o):
        if HOOKS.get('eq'):
            tick()
        return type(o) is PKey and o.v == self.v

    def __lt__(self, o):
        if HOOKS.get('lt'):
            tick()
        return self.v < o.v

    def __repr__(self):
        if HOOKS.get('repr'):
            tick()
        return f'PKey({self.v})'

    def __reduce__(self):
        if HOOKS.get('reduce'):
            tick()
        return (PKey, (self.v,))


class PMeta:
    def __init__(self, v):
        self.v = v

    def __eq__(self, o):
        if HOOKS.get('meta_eq'):
            tick()
        return type(o) is PMeta and o.v == self.v

    def __hash__(self):
        return hash(self.v)

    def __repr__(self):
        if HOOKS.get('meta_repr'):
            tick()
        return f'PMeta({self.v})'


class PNode:
    def __init__(self, children, v=0):
        self.children = list(children)
        self.v = v


def pnode_flatten(x):
    if HOOKS.get('flatten'):
        tick()
    return x.children, PMeta(x.v), tuple(range(len(x.children)))


def pnode_unflatten(m, ch):
    if HOOKS.get('unflatten'):
        tick()
    return PNode(ch, m.v)


HOOKS = {}
NS = 'c17'
Pt = namedtuple('Pt', 'x y')


def shared_tree():
    return {'b': (1, [2, None]), 'a': PNode([3, (4,)], 7), 'c': OrderedDict(z=5, y=deque([6])),
            'd': defaultdict(list, {'k': Pt(7, 8)}), 'e': os.terminal_size((9, 10))}


def key_tree():
    return {PKey(3): 1, PKey(1): [2, 3], PKey(2): {PKey(9): 4, PKey(4): (5,)}}


def canon(x, d=0):
    if isinstance(x, optree.PyTreeSpec):
        return ('spec', repr(x), x.num_leaves, x.num_nodes)
    if isinstance(x, dict):
        return (type(x).__name__, tuple((canon(k, d + 1), canon(v, d + 1)) for k, v in x.items()))
    if isinstance(x, (list, tuple, deque)):
        return (type(x).__name__, tuple(canon(v, d + 1) for v in x))
    if isinstance(x, PNode):
        return ('PNode', x.v, tuple(canon(v, d + 1) for v in x.children))
    if isinstance(x, (PKey, PMeta)):
        return (type(x).__name__, x.v)
    if isinstance(x, (int, str, float, bool, type(None))):
        return x
    if isinstance(x, type):
        return x.__qualname__
    if isinstance(x, BaseException):
        return ('exc', type(x).__name__)
    return repr(x)


def fresh_nt(hook):
    """a tuple subclass whose metaclass answers the `_fields` / `n_fields` lookups with Python code"""
    class Meta(type):
        @property
        def _fields(cls):
            hook()
            raise AttributeError('_fields')

        @property
        def n_fields(cls):
            hook()
            raise AttributeError('n_fields')

    class P(tuple, metaclass=Meta):
        __slots__ = ()
    return P


def b_operations():
    """operations thread B runs while A is parked: name -> (callable, needs_registry_lock)"""
    T = shared_tree()
    S = optree.tree_structure(T, namespace=NS)
    LV = optree.tree_leaves(T, namespace=NS)
    KT = key_tree()
    KS = optree.tree_structure(KT)

    class Unrelated:
        pass
    ops = {
        'tree_flatten': lambda: optree.tree_flatten(T, namespace=NS),
        'tree_flatten_with_path': lambda: optree.tree_flatten_with_path(T, namespace=NS),
        'tree_unflatten': lambda: optree.tree_unflatten(S, LV),
        'tree_map': lambda: optree.tree_map(lambda x: x, T, namespace=NS),
        'tree_iter': lambda: list(optree.tree_iter(T, namespace=NS)),
        'spec ==': lambda: (S == optree.tree_structure(T, namespace=NS), S != S),
        'hash(spec)': lambda: hash(S) == hash(optree.tree_structure(T, namespace=NS)),
        'repr(spec)': lambda: repr(S),
        'pickle': lambda: pickle.loads(pickle.dumps(S)) == S,
        'inspect': lambda: (S.paths(), S.entries(), S.children(), S.num_leaves, [repr(a) for a in S.accessors()]),
        'is_prefix': lambda: (S.is_prefix(S), optree.treespec_leaf(namespace=NS).is_prefix(S)),
        'flatten keys': lambda: optree.tree_flatten(KT),
        'hash(key spec)': lambda: hash(KS) == hash(optree.tree_structure(KT)),
        'repr(key spec)': lambda: repr(KS),
        'flatten fresh namedtuple class': lambda: optree.tree_flatten(namedtuple('Q', 'a b')(1, (2, 3))),
        'classify fresh classes': lambda: (optree.is_namedtuple_class(namedtuple('R', 'a')), optree.is_structseq_class(os.stat_result),
                                           optree.namedtuple_fields(namedtuple('R2', 'a b')), optree.structseq_fields(os.terminal_size)),
        'flatten struct sequence': lambda: optree.tree_flatten((os.terminal_size((1, 2)), time.gmtime(0))),
        'broadcast': lambda: optree.tree_broadcast_prefix((1, 2), (T, [T])),
        'transpose': lambda: optree.tree_transpose(optree.tree_structure((0, 0)), optree.tree_structure([0, 0]), ([1, 2], [3, 4])),
    }
    reg = {
        'register + unregister unrelated type': lambda: (
            optree.register_pytree_node(Unrelated, lambda x: ((), None), lambda m, c: Unrelated(), namespace='c17-b'),
            optree.unregister_pytree_node(Unrelated, namespace='c17-b'))[0] is not None,
    }
    return ops, reg


def a_operations():
    """operations of thread A: name -> (hooks to arm, callable, inside_registration)"""
    T = shared_tree()
    S = optree.tree_structure(T, namespace=NS)
    LV = optree.tree_leaves(T, namespace=NS)
    KT = key_tree()
    KS = optree.tree_structure(KT)
    A = {
        'is_leaf in tree_flatten': ({}, lambda: optree.tree_flatten(T, is_leaf=lambda x: (tick(), False)[1], namespace=NS), False),
        'is_leaf in tree_flatten_with_path': ({}, lambda: optree.tree_flatten_with_path(T, is_leaf=lambda x: (tick(), False)[1], namespace=NS), False),
        'is_leaf in tree_iter': ({}, lambda: list(optree.tree_iter(T, is_leaf=lambda x: (tick(), False)[1], namespace=NS)), False),
        'custom flatten': ({'flatten': 1}, lambda: optree.tree_flatten(T, namespace=NS), False),
        'custom unflatten': ({'unflatten': 1}, lambda: optree.tree_unflatten(S, LV), False),
        'mapped function': ({}, lambda: optree.tree_map(lambda x: (tick(), x)[1], T, namespace=NS), False),
        'key __lt__ (sort)': ({'lt': 1}, lambda: optree.tree_flatten(KT), False),
        'key __hash__ (flatten)': ({'hash': 1}, lambda: optree.tree_flatten(KT), False),
        'key __eq__ (flatten_up_to)': ({'eq': 1}, lambda: KS.flatten_up_to(key_tree()), False),
        'key __hash__ (hash(spec))': ({'hash': 1}, lambda: hash(KS), False),
        'key __repr__ (repr(spec))': ({'repr': 1}, lambda: repr(KS), False),
        'key __reduce__ (pickle)': ({'reduce': 1}, lambda: pickle.loads(pickle.dumps(KS)) == KS, False),
        'metadata __eq__ (spec ==)': ({'meta_eq': 1}, lambda: S == optree.tree_structure(T, namespace=NS), False),
        'metadata __repr__ (repr(spec))': ({'meta_repr': 1}, lambda: repr(S), False),
        'f_node in traverse': ({}, lambda: S.traverse(LV, lambda n: (tick(), n)[1], None), False),
        'f_leaf in walk': ({}, lambda: S.walk(LV, lambda *a: None, lambda l: (tick(), l)[1]), False),
        'metaclass hook at flatten (classification)': ({}, lambda: canon(optree.tree_flatten([fresh_nt(tick)((1, 2))])[1]), False),
        'metaclass hook at is_namedtuple_class': ({}, lambda: optree.is_namedtuple_class(fresh_nt(tick)), False),
        'metaclass hook at is_structseq_class': ({}, lambda: optree.is_structseq_class(fresh_nt(tick)), False),
        'metaclass hook at registration': ({}, lambda: _register_once(fresh_nt(tick)), True),
        'warning hook at registration of a namedtuple': ({}, lambda: _register_with_warning_hook(), True),
        # the error paths of the registry: their messages print the class, i.e. run a metaclass __repr__
        'metaclass __repr__ at a duplicate registration': ({}, lambda: _register_twice(fresh_repr_class(tick)), True),
        'metaclass __repr__ at unregistering an unregistered class': ({}, lambda: _unregister_absent(fresh_repr_class(tick)), True),
    }
    return A


def fresh_repr_class(hook):
    """a class whose metaclass has a Python-level __repr__ (like enum.EnumType): printing the class runs user code"""
    class ReprMeta(type):
        def __repr__(cls):
            hook()
            return '<class with a Python repr>'

    class C(metaclass=ReprMeta):
        def __init__(self, *ch):
            self.ch = ch
    return C


def _register_twice(cls):
    optree.register_pytree_node(cls, lambda x: (x.ch, None), lambda m, c: cls(*c), namespace='c17-a')
    try:
        try:
            optree.register_pytree_node(cls, lambda x: (x.ch, None), lambda m, c: cls(*c), namespace='c17-a')
        except ValueError as e:
            return ('ValueError', 'already registered' in str(e))
        return ('no error',)
    finally:
        optree.unregister_pytree_node(cls, namespace='c17-a')


def _unregister_absent(cls):
    try:
        optree.unregister_pytree_node(cls, namespace='c17-a')
    except ValueError as e:
        return ('ValueError', 'not registered' in str(e) or 'is not' in str(e))
    return ('no error',)


def _register_once(cls):
    optree.register_pytree_node(cls, lambda x: (tuple(x), None), lambda m, c: cls(c), namespace='c17-a')
    optree.unregister_pytree_node(cls, namespace='c17-a')
    return True


def _register_with_warning_hook():
    NT = namedtuple('NTW', 'a b')
    old = warnings.showwarning
    with warnings.catch_warnings():
        warnings.simplefilter('always')
        warnings.showwarning = lambda *a, **k: tick()
        try:
            optree.register_pytree_node(NT, lambda x: (tuple(x), None), lambda m, c: NT(*c), namespace='c17-a')
        finally:
            warnings.showwarning = old
    optree.unregister_pytree_node(NT, namespace='c17-a')
    return True


def coop_run(item):
    """one (A operation, B operation) pair in this (forked) process"""
    global PARK
    aname, bname = item
    optree.register_pytree_node(PNode, pnode_flatten, pnode_unflatten, namespace=NS)
    try:
        A = a_operations()
        ops, reg = b_operations()
        hooks, afn, in_registration = A[aname]
        bfn = ops.get(bname) or reg[bname]
        b_needs_lock = bname in reg
        # solo results
        HOOKS.clear()
        PARK = None
        solo_a = canon(afn())
        solo_b = canon(bfn())
        # concurrent
        park = Parker()
        PARK = park
        HOOKS.clear()
        HOOKS.update(hooks)
        out = {}

        def ta():
            try:
                out['A'] = canon(afn())
            except BaseException as e:  # noqa: BLE001
                out['A'] = ('exc', type(e).__name__, str(e)[:100])

        def tb():
            try:
                if not park.parked.wait(WAIT):
                    out['B'] = ('A never parked',)
                    return
                out['B'] = canon(bfn())
                out['B_while_parked'] = not park.release.is_set()
            except BaseException as e:  # noqa: BLE001
                out['B'] = ('exc', type(e).__name__, str(e)[:100])
            finally:
                park.release.set()
        a = threading.Thread(target=ta)
        park.thread = a
        b = threading.Thread(target=tb)
        if in_registration and b_needs_lock:
            # B may have to wait for the Python-level registry lock A holds: release A after a moment
            threading.Timer(0.3, park.release.set).start()
        a.start()
        b.start()
        a.join(3 * WAIT)
        b.join(3 * WAIT)
        HOOKS.clear()
        PARK = None
        if a.is_alive() or b.is_alive():
            return ('stuck', 'A' if a.is_alive() else '', 'B' if b.is_alive() else '')
        if out.get('B') == ('A never parked',):
            return ('nopark',)
        problems = []
        if out.get('A') != solo_a:
            problems.append(f"A returned {str(out.get('A'))[:150]} instead of {str(solo_a)[:150]}")
        if out.get('B') != solo_b:
            problems.append(f"B returned {str(out.get('B'))[:150]} instead of {str(solo_b)[:150]}")
        if park.timed_out and not (in_registration and b_needs_lock):
            problems.append('B did not finish while A was parked inside the callback')
        return ('ok', problems)
    finally:
        try:
            optree.unregister_pytree_node(PNode, namespace=NS)
        except Exception:  # noqa: BLE001
            pass


def run_cooperative(res, tier):
    optree.register_pytree_node(PNode, pnode_flatten, pnode_unflatten, namespace=NS)
    anames = list(a_operations())
    ops, reg = b_operations()
    optree.unregister_pytree_node(PNode, namespace=NS)
    bnames = list(ops) + list(reg)
    items = [(a, b) for a in anames for b in bnames]
    outs = c16.progress_forked(items, coop_run, 20, res, 'cooperative schedule (A parked inside a callback, B runs an operation)')
    for it, o in zip(items, outs):
        res.evaluations += 1
        if o is None:
            continue
        res.count('coop_' + o[0])
        if o[0] == 'nopark':
            res.count('coop_nopark: ' + it[0])
        if o[0] == 'stuck':
            res.fail('threads did not finish (deadlock) with one thread parked inside a callback', repr(it), o)
        elif o[0] == 'ok' and o[1]:
            res.fail('an operation overlapping a callback of another thread did not behave as when run alone', repr(it), o[1])
        elif o[0] == 'raised':
            res.fail('the cooperative scenario raised', repr(it), o)
    res.note_input(('cooperative', len(anames), len(bnames)), True)
    res.notes.append(f'cooperative scheduler: {len(anames)} parking points x {len(bnames)} operations = {len(items)} schedules')


# ---------------------------------------------------------------- shared iterator
def iter_run(item):
    kind, k, seed = item
    leaves = list(range(12))
    tree = {'a': [leaves[0], (leaves[1], leaves[2])], 'b': leaves[3:7], 'c': {'x': leaves[7], 'y': [leaves[8], leaves[9]]},
            'd': (leaves[10], leaves[11])}
    if kind == 'cooperative':
        park = Parker(at=k)

        def pred(x):
            if threading.current_thread() is park.thread:
                park.tick()
            return False
        it = optree.tree_iter(tree, is_leaf=pred)
        got = {'A': [], 'B': []}

        def consume(name):
            try:
                for x in it:
                    got[name].append(x)
            except BaseException as e:  # noqa: BLE001
                got[name].append(('exc', type(e).__name__))

        def tb():
            if park.parked.wait(WAIT):
                consume('B')
            park.release.set()
        a = threading.Thread(target=consume, args=('A',))
        park.thread = a
        b = threading.Thread(target=tb)
        a.start()
        b.start()
        a.join(3 * WAIT)
        b.join(3 * WAIT)
        if a.is_alive() or b.is_alive():
            return ('stuck',)
        allg = got['A'] + got['B']
        return ('ok', sorted(allg, key=repr) == sorted(leaves, key=repr), sorted(map(repr, allg)), park.parked.is_set())
    # preemptive
    sys.setswitchinterval(1e-6)
    rng = random.Random(seed)
    big = [list(range(i * 50, i * 50 + 50)) for i in range(40)]
    want = [x for l in big for x in l]

    def pred(x):
        for _ in range(rng.randrange(3)):
            pass
        return False
    it = optree.tree_iter(big, is_leaf=pred)
    got = [[] for _ in range(6)]

    def consume(i):
        try:
            for x in it:
                got[i].append(x)
        except BaseException as e:  # noqa: BLE001
            got[i].append(('exc', type(e).__name__))
    ts = [threading.Thread(target=consume, args=(i,)) for i in range(6)]
    for t in ts:
        t.start()
    for t in ts:
        t.join(30)
    allg = [x for g in got for x in g]
    return ('ok', sorted(allg, key=repr) == sorted(want, key=repr), f'{len(allg)} delivered for {len(want)} leaves', True)


def run_shared_iterator(res, tier):
    # the predicate is called once per visited object (19 nodes+leaves of the tree): park at each
    items = [('cooperative', k, 0) for k in range(1, 24)] + [('preemptive', 0, s) for s in range(3 if tier == 'quick' else 40)]
    outs = c16.progress_forked(items, iter_run, 60, res, 'shared leaf iterator')
    for it, o in zip(items, outs):
        res.evaluations += 1
        if o is None:
            continue
        if o[0] == 'stuck':
            res.fail('consumers of a shared iterator did not finish', repr(it))
        elif o[0] == 'ok':
            res.count('iter_' + it[0] + ('_parked' if o[3] else '_not_reached'))
            if not o[1]:
                res.fail('a shared leaf iterator did not hand each leaf to exactly one consumer', repr(it), o[2])
        else:
            res.fail('the shared iterator scenario raised', repr(it), o)


# ---------------------------------------------------------------- registrations
def reg_run(item):
    which = item[0]
    if which == 'same key, overlapping in the classification hook':
        park = Parker()
        first = {'done': False}

        def hook():
            if threading.current_thread() is park.thread and not first['done']:
                first['done'] = True
                park.tick()
        cls = fresh_nt(hook)
        results = {}

        def reg(name):
            try:
                optree.register_pytree_node(cls, lambda x: (tuple(x), None), lambda m, c: cls(c), namespace='c17-r')
                results[name] = 'ok'
            except ValueError:
                results[name] = 'ValueError'
            except BaseException as e:  # noqa: BLE001
                results[name] = type(e).__name__

        def tb():
            park.parked.wait(WAIT)
            # the Python-level lock is held by A while it is parked: B's registration completes after A's
            threading.Timer(0.2, park.release.set).start()
            reg('B')
        a = threading.Thread(target=reg, args=('A',))
        park.thread = a
        b = threading.Thread(target=tb)
        a.start()
        b.start()
        a.join(3 * WAIT)
        b.join(3 * WAIT)
        if a.is_alive() or b.is_alive():
            return ('stuck',)
        n_ok = sum(1 for v in results.values() if v == 'ok')
        leaves = optree.tree_leaves(cls((1, 2)), namespace='c17-r')
        view = cls in optree.register_pytree_node.get(namespace='c17-r')
        optree.unregister_pytree_node(cls, namespace='c17-r')
        return ('ok', n_ok == 1 and sorted(results.values()) == ['ValueError', 'ok'] and leaves == [1, 2] and view, str(results))
    if which == 'same key, many threads':
        sys.setswitchinterval(1e-6)

        class C:
            pass
        barrier = threading.Barrier(8)
        results = []

        def reg():
            barrier.wait()
            try:
                optree.register_pytree_node(C, lambda x: ((), None), lambda m, c: C(), namespace='c17-r')
                results.append('ok')
            except ValueError:
                results.append('ValueError')
        ts = [threading.Thread(target=reg) for _ in range(8)]
        for t in ts:
            t.start()
        for t in ts:
            t.join(20)
        ok = results.count('ok') == 1 and results.count('ValueError') == 7
        optree.unregister_pytree_node(C, namespace='c17-r')
        return ('ok', ok, str(results))
    if which == 'flatten overlapping a registry change':
        class X:
            def __init__(self, a, b):
                self.a, self.b = a, b
        f1 = (lambda x: ((x.a,), 'one'), lambda m, c: X(c[0], None))
        f2 = (lambda x: ((x.a, x.b), 'two'), lambda m, c: X(c[0], c[1]))
        change = item[1]
        optree.register_pytree_node(X, *f1, namespace='c17-r')
        park = Parker()
        marker = object()

        def pred(o):
            if o is marker:
                park.tick()
            return False
        tree = [X(1, 2), marker, X(3, 4), (X(5, 6),)]
        out = {}

        def ta():
            try:
                out['r'] = optree.tree_flatten(tree, is_leaf=pred, namespace='c17-r')
            except BaseException as e:  # noqa: BLE001
                out['r'] = e

        def tb():
            if park.parked.wait(WAIT):
                optree.unregister_pytree_node(X, namespace='c17-r')
                if change == 'reregister':
                    optree.register_pytree_node(X, *f2, namespace='c17-r')
            park.release.set()
        a = threading.Thread(target=ta)
        park.thread = a
        b = threading.Thread(target=tb)
        a.start()
        b.start()
        a.join(3 * WAIT)
        b.join(3 * WAIT)
        if a.is_alive() or b.is_alive():
            return ('stuck',)
        r = out['r']
        if isinstance(r, BaseException):
            return ('ok', False, f'flatten raised {type(r).__name__}: {r}')
        leaves, spec = r
        # node by node: the first X was flattened with the old registration; the later ones with the old
        # one, or with the new one (or as leaves when only unregistered) - never a mixture within a node
        n_x_leaves = sum(1 for l in leaves if isinstance(l, X))
        ints = [l for l in leaves if isinstance(l, int)]
        legal = [[1, 3, 5]]                                  # all old
        legal.append([1, 3, 4, 5, 6] if change == 'reregister' else [1])   # old, then new
        ok = ints in legal and len(leaves) == spec.num_leaves
        rebuilt = spec.unflatten(leaves)
        ok = ok and isinstance(rebuilt, list) and len(rebuilt) == 4
        try:
            optree.unregister_pytree_node(X, namespace='c17-r')
        except ValueError:
            pass
        return ('ok', ok, f'leaves={[l if isinstance(l, int) else type(l).__name__ for l in leaves]} spec={spec}')
    return ('ok', True, '')


def run_registrations(res, tier):
    items = [('same key, overlapping in the classification hook',), ('same key, many threads',),
             ('flatten overlapping a registry change', 'unregister'), ('flatten overlapping a registry change', 'reregister')]
    items = items * (2 if tier == 'quick' else 20)
    outs = c16.progress_forked(items, reg_run, 60, res, 'concurrent registration')
    for it, o in zip(items, outs):
        res.evaluations += 1
        if o is None:
            continue
        res.count('reg_' + it[0].split(',')[0].replace(' ', '_'))
        if o[0] == 'stuck':
            res.fail('threads did not finish (deadlock) in a concurrent registration scenario', repr(it))
        elif o[0] == 'ok' and not o[1]:
            res.fail({'same key, overlapping in the classification hook': 'overlapping registrations of the same (type, namespace) did not succeed exactly once',
                      'same key, many threads': 'concurrent registrations of the same (type, namespace) did not succeed exactly once',
                      'flatten overlapping a registry change': 'a flatten overlapping a registry change observed a torn registration'}[it[0]],
                     repr(it), o[2])
        elif o[0] == 'raised':
            res.fail('the registration scenario raised', repr(it), o)


# ---------------------------------------------------------------- preemptive soak
def soak_run(item):
    seed, nthreads, iters = item
    sys.setswitchinterval(1e-6)
    try:
        optree.register_pytree_node(PNode, pnode_flatten, pnode_unflatten, namespace=NS)
    except ValueError:
        pass
    ops, reg = b_operations()
    names = list(ops)
    solo = {n: canon(ops[n]()) for n in names}
    problems = []
    stop = threading.Event()

    def worker(i):
        rng = random.Random(seed * 100 + i)
        for _ in range(iters):
            n = rng.choice(names)
            try:
                r = canon(ops[n]())
            except BaseException as e:  # noqa: BLE001
                r = ('exc', type(e).__name__, str(e)[:80])
            if r != solo[n]:
                problems.append((n, str(r)[:200]))
                return

    def registrar():
        k = 0
        while not stop.is_set():
            k += 1
            cls = type(f'U{k}', (), {})
            optree.register_pytree_node(cls, lambda x: ((), None), lambda m, c: None, namespace='c17-s')
            nt = namedtuple(f'N{k}', 'a b')
            optree.tree_flatten(nt(1, 2))
            optree.unregister_pytree_node(cls, namespace='c17-s')
    ts = [threading.Thread(target=worker, args=(i,)) for i in range(nthreads)]
    rt = threading.Thread(target=registrar)
    rt.start()
    for t in ts:
        t.start()
    for t in ts:
        t.join(120)
    stop.set()
    rt.join(30)
    stuck = [t for t in ts + [rt] if t.is_alive()]
    return ('ok', problems[:3], len(stuck))


def run_soak(res, tier):
    items = [(s, 8, 150) for s in range(2)] if tier == 'quick' else [(s, 16, 1500) for s in range(12)]
    outs = c16.progress_forked(items, soak_run, 600, res, 'preemptive soak (switch interval 1e-6)')
    for it, o in zip(items, outs):
        res.evaluations += 1
        if o is None:
            continue
        res.count('soak_runs')
        if o[0] == 'ok' and (o[1] or o[2]):
            res.fail('an operation run concurrently did not return what it returns when run alone', repr(it), o)
        elif o[0] == 'raised':
            res.fail('the soak scenario raised', repr(it), o)


def run(res, tier, seed):
    bad = run_lock_discipline(res)
    for s, unk in bad:
        res.disagreements.append({'case': f"{s['file']}:{s['line']} {s['function']}", 'model': 'Conc.wf = false',
                                  'impl': f"calls with the mutex held that may run Python code: {unk}",
                                  'where': 'lock discipline (theorem C17_no_deadlock no longer applies to this scope)',
                                  'label': 'lockscan'})
    for name, f in (('cooperative', lambda: run_cooperative(res, tier)), ('iterator', lambda: run_shared_iterator(res, tier)),
                    ('registrations', lambda: run_registrations(res, tier)), ('soak', lambda: run_soak(res, tier))):
        t0 = time.time()
        f()
        res.notes.append(f'section {name}: {time.time() - t0:.1f}s')


if __name__ == '__main__':
    runner.main(__import__('harness.props.c17', fromlist=['x']))
