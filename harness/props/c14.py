"""C14 — treespecs are immutable values independent of their source tree and registry.

Correspondence: cmd 18 (which references every node owns; the GC traversal must report each of them:
compared with __getstate__ and gc.get_referents), cmd 19 (user programs mutating the source dict and
every list entries() returned, around one dict treespec).

Oracles on the implementation: identity-level snapshots of every operand before / after every
operation of the API; every container a treespec hands out is fresh and its mutation leaves the
treespec unchanged; histories of (mutate source, mutate returned lists, unregister / re-register,
delete tree, gc.collect) in random orders, the treespec re-observed after each event; no reference
to leaves (weakrefs die); reference cycles through every kind of payload are collected.
"""
import gc
import pickle
import random
import sys
import weakref
from collections import OrderedDict, defaultdict, deque, namedtuple

import optree

from .. import gen, runner, sx, world
from ..world import World, abstract, attempt, realize
from . import c15

PROP = 'C14'


# ---------------------------------------------------------------- observation of a treespec
def observe(spec):
    """everything public a treespec says about itself (value level)"""
    st = spec.__getstate__()
    return (c15.canon(st), repr(spec), spec.num_leaves, spec.num_nodes, spec.num_children,
            c15.canon(spec.paths()), c15.canon(spec.entries()), [repr(a) for a in spec.accessors()],
            [repr(c) for c in spec.children()], spec.none_is_leaf, spec.namespace, int(spec.kind), hash(spec))


# ---------------------------------------------------------------- cmd 18: owned references / GC traversal
def impl_gc(cfg, t, rng, res):
    case = (18, cfg, t)
    with World(cfg) as w:
        tree = realize(t, rng, {})
        f = attempt(lambda: optree.tree_flatten(tree, **w.kw()))
        if f[0] != 0:
            return case, f
        spec = f[1][1]
        st = spec.__getstate__()
        pats = []
        refs = gc.get_referents(spec)
        ref_ids = {}
        for r in refs:
            ref_ids[id(r)] = ref_ids.get(id(r), 0) + 1
        missing = []
        for nd in st[0]:
            kind = nd[0]
            pat = []
            if nd[2] is not None or kind == 9:      # deque: maxlen None is still a payload (the None object)
                pat.append(0)
            if nd[3] is not None:
                pat.append(1)
            if nd[7] is not None:
                pat.append(2)
            pats.append(tuple(pat))
            for fld in (2, 3, 7):
                if nd[fld] is not None and id(nd[fld]) not in ref_ids:
                    missing.append((kind, fld, type(nd[fld]).__name__))
        res.evaluations += 1
        if missing:
            res.fail('the GC traversal of a treespec does not report a reference the treespec owns', case,
                     f'(kind, state field, type) not among gc.get_referents: {missing[:4]}')
        return case, (0, tuple(pats), tuple(pats))


# ---------------------------------------------------------------- cmd 19: alias programs
def impl_alias(keys, prog):
    d = {world.real_key(k): i for i, k in enumerate(keys)}
    spec = optree.tree_structure(d)
    held = [d]

    def obs():
        st = spec.__getstate__()
        return ((0, tuple(world.abs_key(k) for k in spec.entries())),
                (0, tuple(world.abs_key(k) for k in st[0][-1][7])))
    out = [obs()]
    for op in prog:
        if op[0] == 0:
            n, ks = op[1], op[2]
            if n < len(held):
                target = held[n]
                new = [world.real_key(k) for k in ks]
                if isinstance(target, dict):
                    target.clear()
                    target.update({k: 0 for k in new})
                else:
                    target[:] = new
        else:
            held.insert(0, spec.entries())
        out.append(obs())
    return tuple(out)


# ---------------------------------------------------------------- B1: operands unchanged by every operation
def run_operand_snapshots(res, tier):
    for name, (build, op) in c15.scenarios().items():
        c15.INJ.reset(None)
        env = build()
        gc.collect()
        s0 = tuple(c15.snap(v) for v in env.values())
        g0 = c15.global_state()
        r = attempt(lambda: op(env))
        res.evaluations += 1
        res.count('operand_snapshot_scenarios')
        if tuple(c15.snap(v) for v in env.values()) != s0:
            res.fail('an operation modified one of its operands', name)
        if c15.global_state() != g0:
            res.fail('an operation changed the registry or the dict-order mode', name)
        del r


# ---------------------------------------------------------------- B2: everything handed out is fresh
def handouts(spec, tree, kw):
    return {
        'paths': lambda: spec.paths(),
        'accessors': lambda: spec.accessors(),
        'entries': lambda: spec.entries(),
        'children': lambda: spec.children(),
        'treespec_paths': lambda: optree.treespec_paths(spec),
        'treespec_entries': lambda: optree.treespec_entries(spec),
        'treespec_children': lambda: optree.treespec_children(spec),
        'treespec_accessors': lambda: optree.treespec_accessors(spec),
        'tree_leaves': lambda: optree.tree_leaves(tree, **kw),
        'tree_flatten[0]': lambda: optree.tree_flatten(tree, **kw)[0],
        'tree_paths': lambda: optree.tree_paths(tree, **kw),
        'tree_flatten_with_path[0]': lambda: optree.tree_flatten_with_path(tree, **kw)[0],
        'tree_flatten_with_path[1]': lambda: optree.tree_flatten_with_path(tree, **kw)[1],
        'flatten_up_to': lambda: spec.flatten_up_to(tree),
        'broadcast_prefix': lambda: optree.broadcast_prefix(tree, tree, **kw),
    }


def scribble(x, depth=0):
    """mutate the returned container in place (only the container itself: its elements may be leaves,
    i.e. objects of the caller's tree)"""
    if isinstance(x, list):
        x.append('junk')
        x.reverse()
        del x[: len(x) // 2]
    elif isinstance(x, dict):
        x['junk'] = 1


def run_handouts(res, tier, seed):
    rng = random.Random(seed * 77 + 14)
    n = 500 if tier == 'quick' else 10000
    limit = optree.MAX_RECURSION_DEPTH
    for i in range(n):
        cfg = gen.gen_cfg(rng, limit)
        g = gen.TreeGen(rng, world.STRUCTSEQ_ARITY, max_nodes=rng.choice([6, 15, 30]), max_depth=rng.choice([3, 5]),
                        max_arity=rng.choice([2, 3, 5]))
        t = g.tree()
        case = (18, cfg, t)
        with World(cfg) as w:
            tree = realize(t, random.Random(i), {})
            kw = w.kw()
            f = attempt(lambda: optree.tree_flatten(tree, **kw))
            if f[0] != 0:
                continue
            spec = f[1][1]
            o0 = observe(spec)
            t0 = abstract(tree)
            for name, get in handouts(spec, tree, kw).items():
                a = attempt(get)
                b = attempt(get)
                res.evaluations += 1
                if a[0] != 0 or b[0] != 0:
                    continue
                res.count('handout_' + name)
                if isinstance(a[1], list) and a[1] is b[1]:
                    res.fail(f'{name} returned the same list object twice', case)
                scribble(a[1])
                if observe(spec) != o0:
                    res.fail(f'mutating the object returned by {name} changed the treespec', case)
                if abstract(tree) != t0:
                    res.fail(f'mutating the object returned by {name} changed the tree', case)
                c = attempt(get)
                if c[0] == 0 and c15.canon(c[1]) != c15.canon(b[1]):
                    res.fail(f'mutating the object returned by {name} changed what {name} returns next', case)
        res.note_input((cfg, t), gen.obj_internal(t) >= 2)


# ---------------------------------------------------------------- B3: histories
class HNode:
    def __init__(self, children, meta):
        self.children = list(children)
        self.meta = meta


def hnode_flatten(x):
    return x.children, x.meta, tuple(f'c{i}' for i in range(len(x.children)))


def hnode_unflatten(meta, children):
    return HNode(children, meta)


class WLeaf:
    __slots__ = ('i', '__weakref__')

    def __init__(self, i):
        self.i = i

    def __repr__(self):
        return f'WLeaf({self.i})'


def history_tree(rng):
    ctr = [0]

    def leaf():
        ctr[0] += 1
        return WLeaf(ctr[0])

    def node(d):
        r = rng.random()
        if d <= 0 or r < 0.25:
            return leaf()
        k = rng.randrange(7)
        n = rng.randrange(0, 4)
        ch = [node(d - 1) for _ in range(n)]
        if k == 0:
            return ch
        if k == 1:
            return tuple(ch)
        if k == 2:
            ks = rng.sample(['a', 'b', 'c', 'd', 1, 2, 3], n)
            return dict(zip(ks, ch))
        if k == 3:
            return OrderedDict(zip(rng.sample(['x', 'y', 'z', 'w'], n), ch))
        if k == 4:
            return defaultdict(list, zip(rng.sample(['p', 'q', 'r', 's'], n), ch))
        if k == 5:
            return deque(ch, maxlen=rng.choice([None, 5]))
        return HNode(ch, rng.randrange(5))
    return {'root': node(3), 'other': [node(2), HNode([leaf()], 9)]}


def containers_of(tree):
    out, stack = [], [tree]
    while stack:
        x = stack.pop()
        if isinstance(x, (list, dict, deque)):
            out.append(x)
            stack.extend(x.values() if isinstance(x, dict) else x)
        elif isinstance(x, tuple):
            stack.extend(x)
        elif isinstance(x, HNode):
            out.append(x.children)
            stack.extend(x.children)
    return out


def mutate_container(rng, c):
    if isinstance(c, dict):
        r = rng.randrange(4)
        if r == 0:
            c[f'new{rng.randrange(100)}'] = WLeaf(-1)
        elif r == 1 and c:
            del c[rng.choice(list(c))]
        elif r == 2:
            items = list(c.items())
            rng.shuffle(items)
            c.clear()
            c.update(items)
        else:
            c.clear()
    elif isinstance(c, deque):
        (c.append if rng.random() < 0.5 else c.appendleft)(WLeaf(-2))
    else:
        r = rng.randrange(3)
        if r == 0:
            c.append([WLeaf(-3)])
        elif r == 1:
            c.clear()
        else:
            c.reverse()


def run_histories(res, tier, seed):
    rng = random.Random(seed * 131 + 14)
    n = 500 if tier == 'quick' else 10000
    ns = 'c14h'
    for i in range(n):
        optree.register_pytree_node(HNode, hnode_flatten, hnode_unflatten, namespace=ns)
        registered = True
        tree = history_tree(rng)
        leaves, spec = optree.tree_flatten(tree, namespace=ns)
        wrs = [weakref.ref(l) for l in leaves if isinstance(l, WLeaf)]
        nleaves = len(leaves)
        o0 = observe(spec)
        u0 = c15.canon(spec.unflatten(range(nleaves)))
        handed = [spec.paths(), spec.entries(), spec.children(), spec.accessors(), leaves]
        events = ['mutate_source'] * 3 + ['mutate_handed', 'unregister', 'reregister', 'del_tree', 'gc', 'del_leaves',
                                          'pickle_roundtrip']
        rng.shuffle(events)
        alive = {'tree': True, 'leaves': True}
        cs = h = None
        for ev in events:
            if ev == 'mutate_source' and alive['tree']:
                cs = containers_of(tree)
                if cs:
                    mutate_container(rng, rng.choice(cs))
            elif ev == 'mutate_handed':
                for h in handed:
                    if isinstance(h, list):
                        scribble(h)
            elif ev == 'unregister' and registered:
                optree.unregister_pytree_node(HNode, namespace=ns)
                registered = False
            elif ev == 'reregister' and not registered:
                # a different flatten / unflatten pair under the same (type, namespace)
                optree.register_pytree_node(HNode, lambda x: ((), None), lambda m, c: 'other', namespace=ns)
                registered = True
            elif ev == 'del_tree':
                tree = None
                alive['tree'] = False
            elif ev == 'del_leaves':
                leaves = None
                handed[-1] = None
                alive['leaves'] = False
            elif ev == 'gc':
                gc.collect()
            elif ev == 'pickle_roundtrip' and registered:
                attempt(lambda: pickle.loads(pickle.dumps(spec)))
            res.evaluations += 1
            res.count('history_event_' + ev)
            o1 = attempt(lambda: observe(spec))
            if o1 != (0, o0):
                res.fail('a treespec changed after an event of its history', f'history {i} seed {seed} event {ev}',
                         f'events={events}')
                break
            u1 = attempt(lambda: c15.canon(spec.unflatten(range(nleaves))))
            if u1 != (0, u0):
                res.fail('unflatten through a treespec changed after an event of its history',
                         f'history {i} seed {seed} event {ev}', f'events={events} {str(u1)[:200]}')
                break
        # no reference to the leaves: once tree and leaf list are gone the leaves die, the treespec lives
        tree = leaves = handed = cs = h = None
        gc.collect()
        res.evaluations += 1
        still = [w() for w in wrs if w() is not None]
        if still:
            res.fail('a treespec keeps a leaf of its source tree alive', f'history {i} seed {seed}', still[:3])
        still = None
        if registered:
            optree.unregister_pytree_node(HNode, namespace=ns)
        res.note_input(('history', i, tuple(events)), True)


# ---------------------------------------------------------------- B4: leaves released by every operation
def run_leaf_release(res):
    ns = 'c14l'
    optree.register_pytree_node(HNode, hnode_flatten, hnode_unflatten, namespace=ns)

    def mk():
        return {'a': [WLeaf(1), (WLeaf(2), None)], 'b': HNode([WLeaf(3), deque([WLeaf(4)])], 1),
                'c': defaultdict(int, {'k': WLeaf(5)}), 'd': OrderedDict(z=WLeaf(6))}
    ops = {
        'tree_structure': lambda t: optree.tree_structure(t, namespace=ns),
        'tree_flatten': lambda t: optree.tree_flatten(t, namespace=ns)[1],
        'tree_flatten_with_path': lambda t: optree.tree_flatten_with_path(t, namespace=ns)[2],
        'tree_flatten_with_accessor': lambda t: optree.tree_flatten_with_accessor(t, namespace=ns)[2],
        'tree_map->structure': lambda t: optree.tree_structure(optree.tree_map(lambda x: x, t, namespace=ns), namespace=ns),
        'is_leaf structure': lambda t: optree.tree_structure(t, is_leaf=lambda x: isinstance(x, list), namespace=ns),
        'children': lambda t: optree.tree_structure(t, namespace=ns).children(),
        'one_level': lambda t: optree.tree_structure(t, namespace=ns).one_level(),
        'compose': lambda t: optree.tree_structure(t, namespace=ns).compose(optree.tree_structure(t, namespace=ns)),
        'broadcast_to_common_suffix': lambda t: (lambda s: s.broadcast_to_common_suffix(s))(optree.tree_structure(t, namespace=ns)),
        'transform': lambda t: optree.tree_structure(t, namespace=ns).transform(None, None),
        'pickle round trip': lambda t: pickle.loads(pickle.dumps(optree.tree_structure(t, namespace=ns))),
        'paths/accessors/entries': lambda t: (lambda s: (s.paths(), s.accessors(), s.entries()))(optree.tree_structure(t, namespace=ns)),
        'prefix_errors': lambda t: optree.prefix_errors(t, t, namespace=ns),
        'flatten_up_to then drop': lambda t: (lambda s: (s.flatten_up_to(t), s)[1])(optree.tree_structure(t, namespace=ns)),
    }
    for name, op in ops.items():
        t = mk()
        wrs = [weakref.ref(l) for l in optree.tree_leaves(t, namespace=ns) if isinstance(l, WLeaf)]
        keep = op(t)
        t = None
        gc.collect()
        res.evaluations += 1
        res.count('leaf_release_ops')
        alive = [w() for w in wrs if w() is not None]
        if alive:
            res.fail('the value an operation returned keeps leaves of the source tree alive', name, alive[:3])
        alive = None
        del keep
    optree.unregister_pytree_node(HNode, namespace=ns)


# ---------------------------------------------------------------- B5: cycles through payloads are collected
class Box:
    def __init__(self):
        self.ref = None

    def __call__(self):
        return 0

    def __hash__(self):
        return id(self)

    def __eq__(self, other):
        return self is other

    def __lt__(self, other):
        return id(self) < id(other)


def run_cycles(res):
    ns = 'c14c'

    class Meta(HNode):
        pass
    optree.register_pytree_node(Meta, lambda x: (x.children, x.meta), lambda m, c: Meta(c, m), namespace=ns)

    class Ent(HNode):
        pass
    optree.register_pytree_node(Ent, lambda x: (x.children, None, tuple([x.meta] * len(x.children))),
                                lambda m, c: Ent(c, None), namespace=ns)

    def nt_with_attr(box):
        T = namedtuple('T', 'a b')
        T.box = box
        return T(1, 2)
    cases = {
        'custom metadata, 2 children': lambda b: Meta([1, 2], b),
        'custom metadata, childless': lambda b: Meta([], b),
        'custom metadata, childless, nested': lambda b: [Meta([], b), 1],
        'custom entries': lambda b: Ent([1, 2], b),
        'dict key': lambda b: {b: 1, 'x': 2},
        'dict key, nested dict': lambda b: [({b: 1},)],
        'ordereddict key': lambda b: OrderedDict([(b, 1)]),
        'defaultdict key': lambda b: defaultdict(int, {b: 1}),
        'defaultdict factory, non-empty': lambda b: defaultdict(b, {'k': 1}),
        'defaultdict factory, empty': lambda b: defaultdict(b),
        'defaultdict factory, empty, nested': lambda b: (defaultdict(b), 1),
        'namedtuple class attribute': nt_with_attr,
        'dict key, insertion-ordered mode': lambda b: {b: 1, 'x': 2},
    }
    for name, mk in cases.items():
        for how in ('tree_structure', 'tree_flatten', 'children', 'pickle'):
            box = Box()
            tree = mk(box)
            try:
                if name.endswith('insertion-ordered mode'):
                    with optree.dict_insertion_ordered(True, namespace=ns):
                        spec = optree.tree_structure(tree, namespace=ns)
                elif how == 'tree_structure':
                    spec = optree.tree_structure(tree, namespace=ns)
                elif how == 'tree_flatten':
                    spec = optree.tree_flatten(tree, namespace=ns)[1]
                elif how == 'children':
                    spec = optree.treespec_tuple([optree.tree_structure(tree, namespace=ns)], namespace=ns)
                else:
                    continue
            except TypeError:
                continue
            o0 = repr(spec), spec.num_nodes
            box.ref = spec                      # the cycle: treespec -> payload -> box -> treespec
            wr = weakref.ref(box)
            del tree
            gc.collect()
            res.evaluations += 1
            res.count('cycle_cases')
            if (repr(spec), spec.num_nodes) != o0:
                res.fail('a treespec in a reference cycle changed across gc.collect()', f'{name} via {how}')
            del spec, box
            for _ in range(3):
                gc.collect()
            if wr() is not None:
                res.fail('a treespec in a reference cycle through its payload is not reclaimed by the garbage collector',
                         f'{name} via {how}')
    # cycles that run through a leaf iterator (tree_iter keeps its tree alive for as long as it lives): the
    # treespec's key object refers to an iterator over a tree that has the treespec as a leaf — with the
    # iterator fresh, partially advanced and exhausted
    for state in ('fresh', 'advanced', 'exhausted'):
        for shape in ('list', 'dict', 'nested', 'predicate'):
            box = Box()
            spec = optree.tree_structure({box: 1, 'x': (2, 3)}, namespace=ns)
            if shape == 'predicate':
                # the cycle closes through the is_leaf predicate instead of the tree:
                # treespec -> key -> iterator -> predicate (closure) -> treespec
                tree = [1, 2, (3,)]
                it = optree.tree_iter(tree, is_leaf=(lambda x, _s=spec: False), namespace=ns)
            else:
                tree = {'list': lambda: [spec, 1, 2], 'dict': lambda: {'s': spec, 'a': 1},
                        'nested': lambda: ([0, (spec,)], {'k': 5})}[shape]()
                it = optree.tree_iter(tree, namespace=ns)
            if state == 'advanced':
                next(it)
            elif state == 'exhausted':
                for _ in it:
                    pass
                if list(it) != []:
                    res.fail('an exhausted tree_iter yields again', f'{shape}')
            box.ref = it                        # the cycle: treespec -> key -> iterator -> tree -> treespec
            wr, wt = weakref.ref(box), weakref.ref(spec)
            del tree, it, spec, box
            for _ in range(3):
                gc.collect()
            res.evaluations += 1
            res.count('cycle_cases')
            if wr() is not None or wt() is not None:
                res.fail('a treespec in a reference cycle through its payload is not reclaimed by the garbage collector',
                         f'cycle through a {state} tree_iter over a {shape} holding the treespec')
        # and the plain self-reference: the tree holds its own (fresh / advanced / exhausted) iterator
        holder = Box()
        tree = [1, 2, holder]
        it = optree.tree_iter(tree, namespace=ns)
        if state == 'advanced':
            next(it)
        elif state == 'exhausted':
            for _ in it:
                pass
        holder.ref = it
        wh = weakref.ref(holder)
        del tree, it, holder
        for _ in range(3):
            gc.collect()
        res.evaluations += 1
        res.count('cycle_cases')
        if wh() is not None:
            res.fail('a tree in a reference cycle with its own leaf iterator is not reclaimed by the garbage collector',
                     f'{state} tree_iter stored in a leaf of the tree it iterates over')
    optree.unregister_pytree_node(Meta, namespace=ns)
    optree.unregister_pytree_node(Ent, namespace=ns)


# ---------------------------------------------------------------- cmd 29: what a leaf iterator reports to the collector
def run_iter_gc(res, rng, n, limit):
    """gc.get_referents(iterator) after k next() calls = the model's owned references: the objects pending on
    the agenda, the root, and the is_leaf predicate when there is one"""
    cmds, obs = [], []
    for i in range(n):
        cfg = gen.gen_cfg(rng, limit)
        g = gen.TreeGen(rng, world.STRUCTSEQ_ARITY, max_nodes=rng.choice([4, 10, 25]), max_depth=rng.choice([2, 4, 6]),
                        max_arity=rng.choice([2, 3, 5]))
        o = g.tree()
        k = rng.randrange(0, 8)
        with World(cfg) as w:
            tree = realize(o, random.Random(i), {})
            kw = w.kw()
            it = optree.tree_iter(tree, **kw)
            r = (0,)
            for _ in range(k):
                r = attempt(lambda: next(it, None))
                if r[0] != 0:
                    break
            if r[0] != 0:
                ob = r
            else:
                refs = [x for x in gc.get_referents(it) if x is not type(it)]
                pred = kw.get('is_leaf')
                has_pred = has_root = 0
                if pred is not None:
                    for j, x in enumerate(refs):
                        if x is pred:
                            del refs[j]
                            has_pred = 1
                            break
                for j in range(len(refs) - 1, -1, -1):
                    if refs[j] is tree:
                        del refs[j]
                        has_root = 1
                        break
                ob = (0, tuple(sorted((abstract(x) for x in refs), key=sx.dump)), has_root, has_pred)
        cmds.append((29, cfg, o, k))
        obs.append(ob)
        res.count('iter_gc_%s' % ('ok' if ob[0] == 0 else 'err'))
    mod = runner.run_model(cmds)
    for c, a, b in zip(cmds, obs, mod):
        if isinstance(b, tuple) and len(b) == 4 and b[0] == 0:
            b = (0, tuple(sorted(b[1], key=sx.dump)), b[2], b[3])
        res.compare(c, a, b, 'cmd_iter_gc')


# ---------------------------------------------------------------- main
def run(res, tier, seed):
    rng = random.Random(seed * 1000003 + 14)
    limit = optree.MAX_RECURSION_DEPTH
    n = 2000 if tier == 'quick' else 40000
    cmds, obs = [], []
    for i in range(n):
        cfg = gen.gen_cfg(rng, limit)
        g = gen.TreeGen(rng, world.STRUCTSEQ_ARITY, max_nodes=rng.choice([6, 15, 40]), max_depth=rng.choice([3, 5, 8]),
                        max_arity=rng.choice([2, 3, 5]))
        t = g.tree()
        c, o = impl_gc(cfg, t, random.Random(i), res)
        cmds.append(c)
        obs.append(o)
        res.note_input((cfg, t), gen.obj_internal(t) >= 2)
    # alias programs
    m = 1000 if tier == 'quick' else 20000
    for i in range(m):
        keys = gen.gen_keys(rng, rng.randrange(0, 5), rng.choice(['str', 'int', 'num', 'stage2']))
        prog = []
        for _ in range(rng.randrange(1, 7)):
            if rng.random() < 0.4:
                prog.append((1,))
            else:
                prog.append((0, rng.randrange(0, 4), tuple(gen.gen_keys(rng, rng.randrange(0, 4), 'str'))))
        cmds.append((19, tuple(keys), tuple(prog)))
        obs.append(impl_alias(keys, prog))
        res.count('alias_programs')
    mod = runner.run_model(cmds)
    for c, a, b in zip(cmds, obs, mod):
        res.compare(c, a, b, 'cmd_gc' if c[0] == 18 else 'cmd_alias')
    for c in cmds[:2] + cmds[-2:]:
        res.sample(sx.dump(c)[:400])
    optree.register_pytree_node(c15.FNode, c15.fnode_flatten, c15.fnode_unflatten, namespace=world.GLOBAL)
    run_operand_snapshots(res, tier)
    optree.unregister_pytree_node(c15.FNode, namespace=world.GLOBAL)
    run_handouts(res, tier, seed)
    run_histories(res, tier, seed)
    run_leaf_release(res)
    run_cycles(res)
    run_iter_gc(res, rng, 1000 if tier == 'quick' else 20000, limit)


if __name__ == '__main__':
    runner.main(__import__('harness.props.c14', fromlist=['x']))
