"""C02 — leaf order and node/leaf classification follow the documented rules.
Correspondence: cmd 1 with dict-heavy trees over all key-mix classes, and EVERY insertion
permutation of small dicts (<= 4 keys quick, <= 5 thorough) per key mix.
Oracle: equal dicts flatten equally whatever the insertion order (sorted mode, sortable keys); the
none_is_leaf=False leaves are the none_is_leaf=True leaves without the Nones; flattening the leaves
obtained under a predicate gives the leaves obtained without it; subclass instances are leaves."""
import itertools
import random

import optree

from .. import gen, runner, sx, world
from ..world import World, abstract, attempt, realize
from .c01 import impl_traverse

PROP = 'C02'

MIX_KEYS = {
    'str': [(2, 98), (2, 97), (2, 97, 98), (2,), (2, 65)],
    'int': [(0, 3), (0, 1), (0, 2), (0, -1), (0, 10)],
    'num': [(0, 3), (1, 1), (0, 1), (1, -2), (0, 0)],
    'stage2': [(0, 2), (2, 97), (0, 1), (4, 1), (3,)],
    'stage2b': [(6, 1, 2), (6, 0, 5), (6, 1, 1), (2, 122), (1, 0)],
    'unsortable': [(0, 1), (0, 3), (0, 2), (5, 1), (5, 2)],
    'unsortable2': [(7, 0, 2), (2, 98), (7, 0, 1), (2, 97), (0, 5)],
    'none': [(3,), (2, 98), (2, 97), (2, 99), (2, 100)],
    'tuple': [(4, 1, 2), (4, 1), (4,), (4, 0, 5), (4, 1, 1)],
}


def sortable(keys):
    """stage 1 or stage 2 succeeds (decided on the real objects)"""
    ks = [world.real_key(k) for k in keys]
    try:
        sorted(ks)
        return True
    except TypeError:
        try:
            sorted(ks, key=lambda o: (f'{o.__class__.__module__}.{o.__class__.__qualname__}', o))
            return True
        except TypeError:
            return False


def oracle(res, cfg, o, rng):
    case = (1, cfg, o)
    with World(cfg) as w:
        kw = w.kw()
        tree = realize(o, rng, {})
        f = attempt(lambda: optree.tree_flatten(tree, **kw))
        if f[0] != 0:
            return
        res.evaluations += 1
        ls, sp = f[1]
        # another construction history of the same logical tree, same leaves
        if not cfg[4] and cfg[2] == 0 and all_sortable(o):
            t2 = realize(shuffle_dicts(o, rng), rng, {})
            ls2, sp2 = optree.tree_flatten(t2, **kw)
            simple = lambda xs: [world.abs_leaf(x) if world.abs_leaf(x) is not None else type(x).__name__ for x in xs]
            if simple(ls2) != simple(ls) or sp2 != sp:
                res.fail('equal dicts with different insertion order flatten differently', case,
                         f'{sp} vs {sp2}')
        # none_is_leaf law
        kwf = dict(kw, none_is_leaf=False)
        kwt = dict(kw, none_is_leaf=True)
        if cfg[2] in (0, 1, 2, 4):
            a = optree.tree_leaves(tree, **kwf)
            b = optree.tree_leaves(tree, **kwt)
            if [id(x) for x in a] != [id(x) for x in b if x is not None]:
                res.fail('none_is_leaf=False leaves are not the none_is_leaf=True leaves without None', case)
        # predicate idempotence: flattening the leaves obtained under the predicate gives the plain leaves
        if cfg[2] != 0:
            kwn = {k: v for k, v in kw.items() if k != 'is_leaf'}
            plain = optree.tree_leaves(tree, **kwn)
            again = [y for x in ls for y in optree.tree_leaves(x, **kwn)]
            if [id(x) for x in again] != [id(x) for x in plain]:
                res.fail('flattening the leaves obtained under a predicate does not give the leaves obtained without it', case)


def all_sortable(o):
    if o[0] != 1:
        return True
    h = o[1]
    if h[0] in (3, 5):
        ks = h[1:] if h[0] == 3 else h[2:]
        if not sortable(ks):
            return False
    return all(all_sortable(c) for c in o[2:])


def shuffle_dicts(o, rng):
    if o[0] != 1:
        return o
    h = o[1]
    cs = [shuffle_dicts(c, rng) for c in o[2:]]
    if h[0] in (3, 5):
        ks = list(h[1:] if h[0] == 3 else h[2:])
        perm = list(range(len(ks)))
        rng.shuffle(perm)
        ks = [ks[i] for i in perm]
        cs = [cs[i] for i in perm]
        h = (3, *ks) if h[0] == 3 else (5, h[1], *ks)
    return (1, h, *cs)


def run(res, tier, seed):
    rng = random.Random(seed * 1000003 + 2)
    limit = optree.MAX_RECURSION_DEPTH
    cases = []
    # exhaustive: every insertion permutation of small dicts, per key mix, per dict kind, per mode
    maxk = 4 if tier == 'quick' else 5
    nperm = 0
    for mix, keys in MIX_KEYS.items():
        # half-way failing sorts need >= 3 comparable keys plus 2 unsortable ones: always go to 5 there
        top = 5 if mix.startswith('unsortable') else maxk
        for n in range(0, top + 1):
            for perm in itertools.permutations(keys[:n]):
                for kindh in ((3,), (5, 1), (4,)):
                    if kindh == (4,) and n > 3:
                        continue
                    for ins in ((), (0,)) if n >= 2 and kindh != (4,) else ((),):
                        cfg = (0, 0, 0, (), ins, limit)
                        o = (1, (*kindh, *perm), *[(0, i + 1) for i in range(n)])
                        cases.append((cfg, o, 'perm_' + mix))
                        nperm += 1
    res.count('exhaustive_permutation_cases', nperm)
    n = 1200 if tier == 'quick' else 25000
    for i in range(n):
        cfg = gen.gen_cfg(rng, limit)
        g = gen.TreeGen(rng, world.STRUCTSEQ_ARITY, max_nodes=rng.choice([6, 15, 30]),
                        max_depth=rng.choice([3, 5]), max_arity=rng.choice([3, 5, 7]))
        o = g.tree(kinds=['dict', 'ddict', 'dict', 'odict', 'tuple', 'list', 'custom', 'named', 'none', 'deque'])
        cases.append((cfg, o, 'random'))
    cmds, obs = [], []
    for (cfg, o, label) in cases:
        res.count(label)
        res.note_input((cfg, o), len(o) > 3 if o[0] == 1 else False)
        crng = random.Random(rng.getrandbits(48)) if label == 'random' else None
        obs.append(impl_traverse(cfg, o, crng))
        cmds.append((1, cfg, o))
        oracle(res, cfg, o, random.Random(rng.getrandbits(48)))
    mod = runner.run_model(cmds)
    for c, a, b in zip(cmds, obs, mod):
        res.compare(c, a, b, 'cmd_traverse')
    res.exhaustive = False
    res.notes.append(f'all insertion permutations of dicts with <= {maxk} keys over {len(MIX_KEYS)} key mixes were enumerated '
                     f'({nperm} cases); the random part is sampled')
    for c in cmds[:2] + cmds[-2:]:
        res.sample(sx.dump(c)[:400])


if __name__ == '__main__':
    runner.main(__import__('harness.props.c02', fromlist=['x']))
