"""C16 — no input can make the extension touch invalid memory or overflow the stack.

Correspondence: cmd 17 + cmd 1 (depth the traversals reach, on chains around the limit for every node
kind and every kind of bottom), cmd 16 (a list / dict mutated by user code while the recursive flatten
walks it: every mutation script up to a size bound).

Oracles on the implementation, every risky case in a forked child (a crash is an observation, not
the end of the run): same RecursionError threshold at all entry points; trees at the limit work in
every operation; self-referential containers and never-terminating custom flatten functions end in
RecursionError; the (traversal x container kind x callback x position x mutation) matrix ends in a
Python exception or a consistent result; treespec methods with out-of-range / mismatched arguments
and API functions with confused argument types raise Python exceptions; forged pickle states are
rejected or harmless.  VERIF_ASAN=1 (thorough tier sets it) runs the forked parts against an
AddressSanitizer + UBSan build of the working tree as well.
"""
import gc
import itertools
import os
import pickle
import random
import signal
import struct
import sys
import time
import weakref
from collections import OrderedDict, defaultdict, deque, namedtuple

import optree

from .. import gen, runner, sx, world
from ..world import World, abstract, attempt, realize, err_code

PROP = 'C16'
L = optree.MAX_RECURSION_DEPTH


# ---------------------------------------------------------------- forked execution
def forked(fn, timeout=60):
    """run fn() in a forked child; ('ok', value) | ('signal', n) | ('exit', code) | ('timeout',)"""
    r, w = os.pipe()
    pid = os.fork()
    if pid == 0:
        try:
            os.close(r)
            signal.alarm(timeout)
            try:
                v = fn()
                data = pickle.dumps(('ok', v))
            except BaseException as e:  # noqa: BLE001
                data = pickle.dumps(('raised', type(e).__name__, str(e)[:300]))
            os.write(w, struct.pack('<Q', len(data)))
            off = 0
            while off < len(data):
                off += os.write(w, data[off:off + 65536])
        finally:
            os._exit(0)
    os.close(w)
    chunks = []
    while True:
        b = os.read(r, 1 << 20)
        if not b:
            break
        chunks.append(b)
    os.close(r)
    _, status = os.waitpid(pid, 0)
    data = b''.join(chunks)
    if os.WIFSIGNALED(status):
        sig = os.WTERMSIG(status)
        return ('timeout',) if sig == signal.SIGALRM else ('signal', sig)
    if len(data) >= 8:
        n = struct.unpack('<Q', data[:8])[0]
        if len(data) >= 8 + n:
            return pickle.loads(data[8:8 + n])
    return ('exit', os.WEXITSTATUS(status))


def progress_forked(items, fn, timeout, res, what):
    """run fn(item) for every item in ONE child that reports after each item; when the child dies the
    item it was working on is the failing input and the rest continues in a new child"""
    items = list(items)
    out = {}
    start = 0
    while start < len(items):
        r, w = os.pipe()
        pid = os.fork()
        if pid == 0:
            os.close(r)
            try:
                for i in range(start, len(items)):
                    os.write(w, b'S' + struct.pack('<I', i))
                    signal.alarm(timeout)
                    try:
                        v = fn(items[i])
                    except BaseException as e:  # noqa: BLE001
                        v = ('raised', type(e).__name__, str(e)[:200])
                    signal.alarm(0)
                    data = pickle.dumps(v)
                    os.write(w, b'D' + struct.pack('<II', i, len(data)) + data)
            finally:
                os._exit(0)
        os.close(w)
        buf = b''
        while True:
            b = os.read(r, 1 << 20)
            if not b:
                break
            buf += b
        os.close(r)
        _, status = os.waitpid(pid, 0)
        pos, last_started, done = 0, None, set()
        while pos < len(buf):
            tag = buf[pos:pos + 1]
            if tag == b'S':
                last_started = struct.unpack('<I', buf[pos + 1:pos + 5])[0]
                pos += 5
            else:
                i, n = struct.unpack('<II', buf[pos + 1:pos + 9])
                if pos + 9 + n > len(buf):
                    break
                out[i] = pickle.loads(buf[pos + 9:pos + 9 + n])
                done.add(i)
                pos += 9 + n
        if os.WIFSIGNALED(status) and last_started is not None and last_started not in done:
            sig = os.WTERMSIG(status)
            res.evaluations += 1
            if sig == signal.SIGALRM:
                res.fail(f'{what}: the operation does not terminate (watchdog)', repr(items[last_started])[:600])
            else:
                res.fail(f'{what}: the process died with signal {sig}', repr(items[last_started])[:600])
            out[last_started] = ('died', sig)
            start = last_started + 1
        else:
            break
    return [out.get(i) for i in range(len(items))]


# ---------------------------------------------------------------- depth
KINDS = ['tuple', 'list', 'dict', 'odict', 'ddict', 'deque', 'named', 'struct', 'custom']
BOTTOMS = {
    'leaf': (0, 1),
    'empty tuple': (1, (1,)),
    'empty list': (1, (2,)),
    'empty dict': (1, (3,)),
    'empty deque': (1, (6,)),
    'None': (1, (0,)),
    'childless custom': (1, (9, 0, 0, (0,))),
    'unregistered custom': (1, (9, 5, 0, (0,)), (0, 2)),
}


def wrap(kind, t):
    if kind == 'tuple':
        return (1, (1,), t)
    if kind == 'list':
        return (1, (2,), t)
    if kind == 'dict':
        return (1, (3, (2, 97)), t)
    if kind == 'odict':
        return (1, (4, (2, 97)), t)
    if kind == 'ddict':
        return (1, (5, 1, (2, 97)), t)
    if kind == 'deque':
        return (1, (6,), t)
    if kind == 'named':
        return (1, (7, 0), t)
    if kind == 'struct':
        return (1, (8, 0), t, (0, 0))
    if kind == 'custom':
        return (1, (9, 0, 0, (0,)), t)
    raise ValueError(kind)


def chain(kind, n, bottom):
    t = bottom
    for _ in range(n):
        t = wrap(kind, t)
    return t


ENTRY = [
    ('tree_flatten', lambda t, kw: optree.tree_flatten(t, **kw)),
    ('tree_flatten_with_path', lambda t, kw: optree.tree_flatten_with_path(t, **kw)),
    ('tree_flatten_with_accessor', lambda t, kw: optree.tree_flatten_with_accessor(t, **kw)),
    ('tree_iter', lambda t, kw: list(optree.tree_iter(t, **kw))),
    ('tree_leaves', lambda t, kw: optree.tree_leaves(t, **kw)),
    ('tree_structure', lambda t, kw: optree.tree_structure(t, **kw)),
    ('tree_paths', lambda t, kw: optree.tree_paths(t, **kw)),
    ('tree_accessors', lambda t, kw: optree.tree_accessors(t, **kw)),
    ('tree_map', lambda t, kw: optree.tree_map(lambda x: x, t, **kw)),
    ('tree_map_', lambda t, kw: optree.tree_map_(lambda x: x, t, **kw)),
    ('tree_reduce', lambda t, kw: optree.tree_reduce(lambda a, b: a, t, initial=0, **kw)),
    ('tree_all', lambda t, kw: optree.tree_all(t, **kw)),
    ('tree_broadcast_prefix', lambda t, kw: optree.tree_broadcast_prefix(t, t, **kw)),
    ('broadcast_common', lambda t, kw: optree.broadcast_common(t, t, **kw)),
]


def cls_outcome(r):
    if r[0] == 0:
        return 'ok'
    return 'RecursionError' if r == (1, 4) else f'error{r[1:]}'


def at_limit_ops(tree, kw):
    """every operation on a tree that the traversals accept must work"""
    bad = []
    leaves, spec = optree.tree_flatten(tree, **kw)

    def t(name, f):
        try:
            f()
        except RecursionError as e:
            bad.append((name, 'RecursionError', str(e)[:80]))
        except Exception as e:  # noqa: BLE001
            bad.append((name, type(e).__name__, str(e)[:80]))
    t('unflatten', lambda: spec.unflatten(leaves))
    t('repr', lambda: repr(spec))
    t('hash', lambda: hash(spec))
    t('eq', lambda: spec == optree.tree_structure(tree, **kw))
    t('pickle', lambda: pickle.loads(pickle.dumps(spec)) == spec)
    t('paths', lambda: spec.paths())
    t('accessors', lambda: spec.accessors())
    t('entries', lambda: spec.entries())
    t('children', lambda: spec.children())
    t('one_level', lambda: spec.one_level())
    t('is_prefix', lambda: spec.is_prefix(spec))
    t('flatten_up_to', lambda: spec.flatten_up_to(tree))
    t('compose(leaf)', lambda: optree.treespec_leaf(none_is_leaf=spec.none_is_leaf, namespace=spec.namespace).compose(spec))
    t('transform', lambda: spec.transform(None, None))
    t('broadcast_to_common_suffix', lambda: spec.broadcast_to_common_suffix(spec))
    t('traverse', lambda: spec.traverse(leaves))
    t('walk', lambda: spec.walk(leaves, lambda tp, d, ch: None, None))
    t('accessor call', lambda: [a(tree) for a in spec.accessors()])
    return bad


def run_depth(res, tier):
    cfgs = [(0, 0, 0, ((0, 0, 1, 0),), (), L), (1, 1, 0, ((0, 1, 1, 2),), (1,), L)]
    if tier != 'quick':
        # (the registration that applies in namespace 2 uses SequenceEntry: its accessors can be called)
        cfgs.append((0, 2, 0, ((0, 0, 1, 4), (0, 2, 2, 1)), (0,), L))
    cases = []
    for cfg in cfgs:
        for kind in KINDS:
            for bname, bottom in BOTTOMS.items():
                for n in (L - 1, L, L + 1, L + 2):
                    cases.append((cfg, kind, bname, n, chain(kind, n, bottom)))
        # a predicate accepting the bottom (code 1: tuples are leaves) below list chains
        pcfg = (cfg[0], cfg[1], 1, cfg[3], cfg[4], L)
        for n in (L, L + 1, L + 2):
            cases.append((pcfg, 'list', 'tuple accepted by is_leaf', n, chain('list', n, (1, (1,), (0, 1)))))
    cmds17 = [(17, c[0], c[4]) for c in cases]
    mod17 = runner.run_model(cmds17)
    # the field-by-field comparison of all three traversals with the model (cmd 1) costs about a second
    # per 1000-deep chain in the extracted model: quick runs it on the threshold pair of every kind
    def full(c):
        return tier != 'quick' or (c[0] is cfgs[0] and c[3] in (L, L + 1) and c[2] in ('leaf', 'empty tuple', 'None'))
    sel = [i for i, c in enumerate(cases) if full(c)]
    mod1s = runner.run_model([(1, cases[i][0], cases[i][4]) for i in sel])
    mod1 = [None] * len(cases)
    for i, m in zip(sel, mod1s):
        mod1[i] = m
    from .c01 import impl_traverse
    for (cfg, kind, bname, n, t), m17, m1 in zip(cases, mod17, mod1):
        case = f'depth kind={kind} bottom={bname} n={n} cfg={cfg[:3]}'
        vdepth, clean, wf, within = m17
        res.count('depth_%s' % ('within' if within else 'beyond'))
        res.note_input((cfg[:3], kind, bname, n), True)
        with World(cfg) as w:
            tree = realize(t, random.Random(1), {})
            kw = w.kw()
            outs = {}
            for name, f in ENTRY:
                outs[name] = cls_outcome(attempt(lambda: f(tree, kw)))
            res.evaluations += 1
            want = 'ok' if within else 'RecursionError'
            wrong = {k: v for k, v in outs.items() if v != want}
            if wrong and clean and wf:
                res.fail('an entry point does not hit the depth limit where the others do', case,
                         f'visited depth {vdepth}, limit {L}: expected {want} everywhere, got {wrong}')
            # the full field-by-field comparison with the model's three traversals
        if m1 is not None:
            res.compare((1, cfg, ('chain', kind, bname, n)), impl_traverse(cfg, t, random.Random(1)), m1,
                        'cmd_traverse on a chain')
        with World(cfg) as w:
            kw = w.kw()
            if within and n >= L:
                r = forked(lambda: at_limit_ops(tree, kw), 120)
                res.evaluations += 1
                if r[0] != 'ok':
                    res.fail('an operation on a tree at the depth limit kills the process', case, r)
                elif r[1]:
                    res.fail('an operation fails on a tree at the depth limit that the traversals accept', case, r[1][:4])


# ---------------------------------------------------------------- self reference / non-termination
class Loop:
    def __init__(self):
        self.n = 0


def selfref_cases():
    def mk_list():
        l = [1]
        l.append(l)
        return l

    def mk_dict():
        d = {'a': 1}
        d['self'] = d
        return d

    def mk_odict():
        d = OrderedDict()
        d['self'] = d
        return d

    def mk_ddict():
        d = defaultdict(list)
        d['self'] = d
        return d

    def mk_deque():
        d = deque()
        d.append(d)
        return d

    def mk_mixed():
        l = []
        d = {'k': (l,)}
        l.append(d)
        return l

    def mk_custom_self():
        return Loop()

    return [('list', mk_list), ('dict', mk_dict), ('odict', mk_odict), ('ddict', mk_ddict), ('deque', mk_deque),
            ('list-dict-tuple cycle', mk_mixed), ('custom returning itself', mk_custom_self),
            ('custom returning a fresh instance', lambda: Fresh())]


class Fresh:
    pass


def run_selfref(res):
    optree.register_pytree_node(Loop, lambda x: ((x,), None), lambda m, c: Loop(), namespace='c16')
    optree.register_pytree_node(Fresh, lambda x: ([Fresh()], None, ('n',)), lambda m, c: Fresh(), namespace='c16')
    items = [(name, en) for name, _ in selfref_cases() for en, _ in ENTRY]
    mk = dict(selfref_cases())
    ent = dict(ENTRY)

    def one(item):
        name, en = item
        tree = mk[name]()
        return cls_outcome(attempt(lambda: ent[en](tree, {'namespace': 'c16'})))
    outs = progress_forked(items, one, 60, res, 'self-referential / never-ending structure')
    for it, o in zip(items, outs):
        res.evaluations += 1
        res.count('selfref_%s' % (o if isinstance(o, str) else 'died'))
        if isinstance(o, str) and o != 'RecursionError':
            res.fail('a self-referential or never-ending structure does not end in RecursionError', repr(it), o)
    optree.unregister_pytree_node(Loop, namespace='c16')
    optree.unregister_pytree_node(Fresh, namespace='c16')


# ---------------------------------------------------------------- mutation: correspondence with cmd 16
class Lf:
    __slots__ = ('i',)

    def __init__(self, i):
        self.i = i


MUTS = [(0, 0), (1, 0), (2, 0), (3, 0), (4, 7)]


def apply_mut(m, cont, extra):
    code = m[0]
    if isinstance(cont, list):
        if code == 1 and cont:
            del cont[0]
        elif code == 2 and cont:
            del cont[-1]
        elif code == 3:
            cont.clear()
        elif code == 4:
            cont.append(extra)
    else:
        if code == 1 and cont:
            del cont[next(iter(cont))]
        elif code == 2 and cont:
            del cont[next(reversed(cont))]
        elif code == 3:
            cont.clear()
        elif code == 4:
            cont[1000 + m[1]] = extra


def mut_run(item):
    kind, n, script, trav = item
    leaves = [Lf(i) for i in range(n)]
    extra = Lf(7)
    cont = list(leaves) if kind == 0 else {10 + i: leaves[i] for i in range(n)}
    visits = [0]

    def pred(o):
        # the k-th element visit runs the k-th mutation of the script (user code inside the visit)
        if isinstance(o, Lf):
            k = visits[0]
            visits[0] += 1
            if k < len(script):
                apply_mut(script[k], cont, extra)
        return False
    f = {0: lambda: optree.tree_flatten(cont, is_leaf=pred)[0],
         1: lambda: optree.tree_flatten_with_path(cont, is_leaf=pred)[1],
         2: lambda: optree.tree_leaves(cont, is_leaf=pred),
         3: lambda: list(optree.tree_iter(cont, is_leaf=pred))}[trav]
    r = attempt(f)
    if r[0] == 0:
        return (0, tuple(x.i for x in r[1]))
    return r


class USite:
    """custom node of one child whose unflatten function runs the script's next mutation"""
    fire = None

    def __init__(self, child):
        self.child = child


def unfl_mut_run(item):
    n, total, script = item
    # the treespec: n leaves, each followed (in post-order) by the rebuild of its one-child custom node
    spec = optree.tree_structure([USite(0) for _ in range(n)], namespace='c16s')
    leaves = [Lf(i) for i in range(total)]
    extra = Lf(7)
    calls = [0]

    def fire():
        k = calls[0]
        calls[0] += 1
        if k < len(script):
            apply_mut(script[k], leaves, extra)
    USite.fire = fire
    try:
        r = attempt(lambda: spec.unflatten(leaves))
    finally:
        USite.fire = None
    if r[0] == 0:
        got = optree.tree_leaves(r[1], namespace='c16s')
        if not all(type(x) is Lf for x in got):
            return ('inconsistent', 'a leaf of the result is not one of the objects handed in')
        return (0, tuple(x.i for x in got))
    return r


def run_unflatten_scripts(res, tier):
    optree.register_pytree_node(USite, lambda u: ((u.child,), None),
                                lambda md, ch: (USite.fire and USite.fire(), USite(ch[0]))[1], namespace='c16s')
    maxn = 4 if tier == 'quick' else 5
    items, cmds = [], []
    for n in range(0, maxn + 1):
        for total in sorted({max(0, n - 1), n, n + 1}):
            for script in itertools.product(MUTS, repeat=n):
                items.append((n, total, script))
                cmds.append((16, 2, tuple(script), tuple(range(total)), n))
    outs = progress_forked(items, unfl_mut_run, 30, res, 'list of leaves mutated by an unflatten function')
    mod = runner.run_model(cmds)
    for it, c, o, m in zip(items, cmds, outs, mod):
        res.evaluations += 1
        if o is None or (isinstance(o, tuple) and o and o[0] == 'died'):
            continue
        if isinstance(o, tuple) and o and o[0] == 'inconsistent':
            res.fail('unflatten of leaves mutated by a callback returned an inconsistent result', repr(it), o[1])
            continue
        o = tuple(o) if isinstance(o, (list, tuple)) else o
        res.compare(c, o, m, 'cmd_mut_unflatten')
        res.count('unfl_script_%s' % ('ok' if o[0] == 0 else 'ValueError' if o == (1, 1) else 'other'))
    optree.unregister_pytree_node(USite, namespace='c16s')
    res.notes.append(f'unflatten mutation scripts: all {len(MUTS)}^n scripts for n <= {maxn} leaves, lists of n-1 / n / n+1 leaves')


def run_mutation_correspondence(res, tier):
    maxn = 4 if tier == 'quick' else 5
    items, cmds = [], []
    for kind in (0, 1):
        for n in range(1, maxn + 1):
            for script in itertools.product(MUTS, repeat=n):
                # trailing no-ops are the shorter script
                for trav in (0, 1, 2):
                    items.append((kind, n, script, trav))
                    data = tuple(range(n)) if kind == 0 else tuple((10 + i, i) for i in range(n))
                    cmds.append((16, kind, tuple(script), data))
    outs = progress_forked(items, mut_run, 30, res, 'container mutated by is_leaf during the traversal')
    mod = runner.run_model(cmds)
    for it, c, o, m in zip(items, cmds, outs, mod):
        if o is None or (isinstance(o, tuple) and o and o[0] == 'died'):
            continue
        o = tuple(o) if isinstance(o, (list, tuple)) else o
        res.compare(c + (('trav', it[3]),), o, m, 'cmd_mut')
        res.count('mut_%s' % ('ok' if o[0] == 0 else 'IndexError' if o == (1, 5) else 'KeyError' if o == (1, 6) else 'other'))
    res.note_input('mutation scripts', True)
    res.notes.append(f'mutation scripts: all {len(MUTS)}^n scripts for n<= {maxn}, list and dict, 3 recursive traversals')


# ---------------------------------------------------------------- mutation: the wide matrix (oracle only)
class MKey:
    """dict key whose comparison / hash / eq can run a hook"""
    hook = None
    __slots__ = ('v',)

    def __init__(self, v):
        self.v = v

    def __hash__(self):
        if MKey.hook:
            MKey.hook('hash', self)
        return hash(self.v)

    def __eq__(self, o):
        if MKey.hook:
            MKey.hook('eq', self)
        return type(o) is MKey and o.v == self.v

    def __lt__(self, o):
        if MKey.hook:
            MKey.hook('lt', self)
        return self.v < o.v

    def __repr__(self):
        return f'MKey({self.v})'


class Box:
    def __init__(self, items):
        self.items = items


CONTAINERS = ['list', 'dict', 'odict', 'ddict', 'deque', 'dict(MKey)', 'list in dict', 'box(list children)']
WIDE_MUTS = ['del_first', 'del_last', 'clear', 'append', 'del_cursor', 'replace_cursor', 'grow_many']
CALLBACKS = ['is_leaf', 'child flatten', 'key hook']
WIDE_TRAV = ['tree_flatten', 'tree_flatten_with_path', 'tree_iter', 'tree_map', 'flatten_up_to', 'broadcast_prefix',
             'tree_structure+unflatten']


def build_container(kind, n, make_child):
    ch = [make_child(i) for i in range(n)]
    if kind == 'list':
        return ch, ch
    if kind == 'dict':
        d = {f'k{i}': c for i, c in enumerate(ch)}
        return d, d
    if kind == 'odict':
        d = OrderedDict((f'k{i}', c) for i, c in enumerate(ch))
        return d, d
    if kind == 'ddict':
        d = defaultdict(int, {f'k{i}': c for i, c in enumerate(ch)})
        return d, d
    if kind == 'deque':
        d = deque(ch)
        return d, d
    if kind == 'dict(MKey)':
        d = {MKey(i): c for i, c in enumerate(ch)}
        return d, d
    if kind == 'list in dict':
        return {'outer': (ch, 'x'), 'z': 1}, ch
    if kind == 'box(list children)':
        return Box(ch), ch
    raise ValueError(kind)


def wide_mutate(mut, cont, pos):
    try:
        if isinstance(cont, dict):
            keys = list(cont)
            if mut == 'del_first' and keys:
                del cont[keys[0]]
            elif mut == 'del_last' and keys:
                del cont[keys[-1]]
            elif mut == 'clear':
                cont.clear()
            elif mut == 'append':
                cont[MKey(99) if keys and isinstance(keys[0], MKey) else 'zz'] = Lf(99)
            elif mut == 'del_cursor' and pos < len(keys):
                del cont[keys[pos]]
            elif mut == 'replace_cursor' and pos < len(keys):
                cont[keys[pos]] = [Lf(98), Lf(97)]
            elif mut == 'grow_many':
                for i in range(2000):
                    cont[MKey(1000 + i) if keys and isinstance(keys[0], MKey) else f'g{i}'] = Lf(i)
        else:
            if mut == 'del_first' and len(cont):
                del cont[0]
            elif mut == 'del_last' and len(cont):
                del cont[-1]
            elif mut == 'clear':
                cont.clear()
            elif mut == 'append':
                cont.append(Lf(99))
            elif mut == 'del_cursor' and pos < len(cont):
                del cont[pos]
            elif mut == 'replace_cursor' and pos < len(cont):
                cont[pos] = [Lf(98), Lf(97)]
            elif mut == 'grow_many':
                cont.extend(Lf(i) for i in range(2000))
    except (RuntimeError, KeyError, IndexError):
        pass


class Child:
    """custom child whose flatten function is the callback"""

    def __init__(self, i):
        self.i = i


def wide_run(item):
    kind, cb, pos, mut, trav, n = item
    state = {'fired': False, 'cont': None}

    def fire(i):
        if i == pos and not state['fired']:
            state['fired'] = True
            wide_mutate(mut, state['cont'], pos)

    def child_flatten(c):
        fire(c.i)
        return (Lf(c.i),), None
    Child.flatten = child_flatten
    make_child = (lambda i: Child(i)) if cb == 'child flatten' else (lambda i: Lf(i))
    tree, cont = build_container(kind, n, make_child)
    state['cont'] = cont
    kw = {'namespace': 'c16w'}
    if cb == 'is_leaf':
        kw['is_leaf'] = lambda o: (fire(o.i) if isinstance(o, Lf) else None, False)[1]
    if cb == 'key hook':
        cnt = {'n': 0}

        def hook(which, key):
            cnt['n'] += 1
            if cnt['n'] == pos + 1:
                fire(pos)
        MKey.hook = hook
    try:
        if trav == 'tree_flatten':
            leaves, spec = optree.tree_flatten(tree, **kw)
        elif trav == 'tree_flatten_with_path':
            paths, leaves, spec = optree.tree_flatten_with_path(tree, **kw)
            if len(paths) != len(leaves):
                return ('inconsistent', 'paths vs leaves')
        elif trav == 'tree_iter':
            leaves = list(optree.tree_iter(tree, **kw))
            return ('ok', len(leaves))
        elif trav == 'tree_map':
            out = optree.tree_map(lambda x: x, tree, tree, **kw)
            return ('ok', 0)
        elif trav == 'flatten_up_to':
            MKey.hook = None
            t2, _ = build_container(kind, n, lambda i: Lf(i))
            spec0 = optree.tree_structure(t2, namespace='c16w')
            if cb == 'key hook':
                MKey.hook = hook
            spec0.flatten_up_to(tree)
            return ('ok', 0)
        elif trav == 'broadcast_prefix':
            optree.broadcast_prefix(tree, tree, **kw)
            return ('ok', 0)
        else:
            leaves, spec = optree.tree_flatten(tree, **kw)
            MKey.hook = None
            spec.unflatten(leaves)
        MKey.hook = None
        if len(leaves) != spec.num_leaves:
            return ('inconsistent', f'{len(leaves)} leaves vs treespec.num_leaves {spec.num_leaves}')
        spec.unflatten(leaves)
        repr(spec)
        hash(spec)
        return ('ok', len(leaves))
    finally:
        MKey.hook = None


def run_wide_matrix(res, tier):
    optree.register_pytree_node(Child, lambda c: Child.flatten(c), lambda m, ch: Child(0), namespace='c16w')
    optree.register_pytree_node(Box, lambda b: (b.items, None), lambda m, ch: Box(list(ch)), namespace='c16w')
    items = []
    n = 4
    for kind in CONTAINERS:
        for cb in CALLBACKS:
            if cb == 'key hook' and kind != 'dict(MKey)':
                continue
            for pos in range(n):
                for mut in WIDE_MUTS:
                    for trav in WIDE_TRAV:
                        items.append((kind, cb, pos, mut, trav, n))
    outs = progress_forked(items, wide_run, 30, res, 'mutation matrix')
    for it, o in zip(items, outs):
        res.evaluations += 1
        if o is None:
            continue
        tag = o[0]
        res.count('wide_%s' % tag)
        if tag == 'inconsistent':
            res.fail('a traversal of a container mutated by a callback returned an inconsistent result', repr(it), o[1])
        elif tag == 'raised' and o[1] in ('SystemError', 'InternalError'):
            res.fail('a traversal of a container mutated by a callback raised an internal error', repr(it), o)
    res.notes.append(f'mutation matrix: {len(items)} (container, callback, position, mutation, traversal) cells, each in a forked child stream')



# ---------------------------------------------------------------- custom nodes: children vs path entries
class ENode:
    """custom node whose flatten function returns nc children and ne path entries"""

    def __init__(self, nc, ne, ckind, ekind, depth=0):
        self.nc, self.ne, self.ckind, self.ekind, self.depth = nc, ne, ckind, ekind, depth


def enode_flatten(x):
    def child(i):
        return ENode(1, 1, 'tuple', 'tuple', 0) if (x.depth and i == 0) else Lf(i)
    if x.ckind == 'tuple':
        ch = tuple(child(i) for i in range(x.nc))
    elif x.ckind == 'list':
        ch = [child(i) for i in range(x.nc)]
    else:
        ch = (child(i) for i in range(x.nc))
    if x.ekind == 'none':
        return ch, 'm'
    ent = tuple('e%d' % i for i in range(x.ne))
    return ch, 'm', (list(ent) if x.ekind == 'list' else ent)


ENT_TRAV = ['tree_flatten', 'tree_flatten_with_path', 'tree_flatten_with_accessor', 'tree_iter', 'tree_leaves',
            'tree_structure', 'tree_paths', 'tree_accessors', 'tree_map', 'tree_map_with_path', 'tree_flatten_one_level',
            'flatten_up_to', 'prefix_errors']


def entries_run(item):
    nc, ne, ckind, ekind, depth, wrap_in, trav = item
    node = ENode(nc, ne, ckind, ekind, depth)
    tree = node if wrap_in == 'bare' else (Lf(-1), node, Lf(-2)) if wrap_in == 'tuple' else {'a': node, 'b': [node]}
    kw = {'namespace': 'c16e'}
    f = {'tree_flatten': lambda: len(optree.tree_flatten(tree, **kw)[0]),
         'tree_flatten_with_path': lambda: len(optree.tree_flatten_with_path(tree, **kw)[0]),
         'tree_flatten_with_accessor': lambda: len(optree.tree_flatten_with_accessor(tree, **kw)[0]),
         'tree_iter': lambda: len(list(optree.tree_iter(tree, **kw))),
         'tree_leaves': lambda: len(optree.tree_leaves(tree, **kw)),
         'tree_structure': lambda: optree.tree_structure(tree, **kw).num_leaves,
         'tree_paths': lambda: len(optree.tree_paths(tree, **kw)),
         'tree_accessors': lambda: len(optree.tree_accessors(tree, **kw)),
         'tree_map': lambda: len(optree.tree_leaves(optree.tree_map(lambda x: x, tree, **kw), **kw)),
         'tree_map_with_path': lambda: len(optree.tree_leaves(optree.tree_map_with_path(lambda p, x: x, tree, **kw), **kw)),
         'tree_flatten_one_level': lambda: len(optree.tree_flatten_one_level(node, **kw)[0]),
         'flatten_up_to': lambda: len(optree.tree_structure((0, 0, 0) if wrap_in == 'tuple' else 0, **kw).flatten_up_to(tree)),
         'prefix_errors': lambda: len(optree.prefix_errors(tree, tree, **kw))}[trav]
    return ('ok', f())


def run_entries_matrix(res, tier):
    optree.register_pytree_node(ENode, enode_flatten, lambda m, ch: ENode(len(ch), len(ch), 'tuple', 'tuple'), namespace='c16e')
    sizes = [0, 1, 2, 3, 40, 3000, 400000] if tier != 'asan' else [0, 1, 2, 3, 40]
    items = []
    for nc in sizes:
        for ne in ([0, 1, 2, 3, 41] if nc < 3000 else [1, 3]):
            for ckind in ('tuple', 'list', 'gen'):
                for ekind in ('tuple', 'list', 'none'):
                    if ekind == 'none' and ne != 0:
                        continue
                    for depth in ((0, 1) if nc in (2, 3) else (0,)):
                        for wrap_in in (('bare', 'tuple', 'dict') if nc < 3000 else ('bare',)):
                            for trav in ENT_TRAV:
                                if nc >= 3000 and trav in ('prefix_errors', 'tree_map_with_path', 'tree_accessors', 'tree_flatten_with_accessor'):
                                    continue
                                items.append((nc, ne, ckind, ekind, depth, wrap_in, trav))
    outs = progress_forked(items, entries_run, 60, res, 'children/entries matrix')
    for it, o in zip(items, outs):
        res.evaluations += 1
        if o is None:
            continue
        nc, ne, ckind, ekind, depth, wrap_in, trav = it
        res.count('entries_%s' % o[0])
        consistent = ekind == 'none' or nc == ne
        if o[0] == 'raised' and o[1] in ('SystemError', 'InternalError'):
            res.fail('a custom node whose flatten function returns mismatching children / path entries raised an internal error',
                     repr(it), str(o))
        elif o[0] == 'raised' and consistent and not (trav == 'prefix_errors'):
            res.fail('a custom node with as many path entries as children (or none declared) was rejected', repr(it), str(o))
        elif o[0] == 'ok' and not consistent and trav not in ('flatten_up_to',):
            res.fail('a custom node with a different number of path entries than children was accepted', repr(it), str(o))
    res.notes.append(f'children/entries matrix: {len(items)} (children, entries, containers, nesting, traversal) cells in forked child streams')

# ---------------------------------------------------------------- mutation of the leaves handed to unflatten
class ULf:
    """leaf for the unflatten matrix: weak-referenceable, so that a freed leaf can be told from a live one"""
    __slots__ = ('i', '__weakref__')

    def __init__(self, i):
        self.i = i


class UNode:
    """custom node whose unflatten function is the callback"""
    fire = None

    def __init__(self, children, tag):
        self.children = children
        self.tag = tag


UPt = namedtuple('UPt', ['a', 'b'])


class UPtSub(UPt):
    """namedtuple subclass whose constructor is the callback"""
    fire = None
    __slots__ = ()

    def __new__(cls, a, b):
        if UPtSub.fire:
            UPtSub.fire('namedtuple __new__')
        return super().__new__(cls, a, b)


UNFL_CALLBACKS = ['unflatten_func', 'namedtuple __new__', 'key hash']
UNFL_MUTS = ['del_tail', 'del_first', 'clear', 'append', 'grow_many', 'replace_rest', 'clear_then_allocate']
UNFL_LEAVES = ['list', 'list subclass', 'deque', 'iterator over list', 'tuple copy (control)']
UNFL_ENTRY = ['treespec.unflatten', 'tree_unflatten']


class _LSub(list):
    pass


def unfl_tree(cb):
    """a tree with three callback sites in post-order, leaves before / between / after them"""
    def site(x, y, tag):
        if cb == 'unflatten_func':
            return UNode([x, y], tag)
        if cb == 'namedtuple __new__':
            return UPtSub(x, y)
        return {MKey(tag): x, MKey(tag + 10): y}
    L = [ULf(i) for i in range(9)]
    return [L[0], site(L[1], L[2], 0), (L[3], site(L[4], [L[5]], 1)), L[6], site(L[7], L[8], 2)], L


def unfl_run(item):
    cb, site_no, mut, lkind, entry, keep_alive = item
    tree, L = unfl_tree(cb)
    spec = optree.tree_structure(tree, namespace='c16u')
    n = spec.num_leaves
    orig_ids = [id(x) for x in L]
    wrs = [weakref.ref(x) for x in L]
    base = list(L)
    leaves = {'list': lambda: base, 'list subclass': lambda: _LSub(base), 'deque': lambda: deque(base),
              'iterator over list': lambda: iter(base), 'tuple copy (control)': lambda: tuple(base)}[lkind]()
    cont = base if lkind in ('list', 'iterator over list', 'tuple copy (control)') else leaves
    keep = list(L) if keep_alive else None
    del L, tree
    state = {'n': 0, 'fired': False, 'new': []}

    def fire(_what):
        if state['fired']:
            return
        if state['n'] == site_no:
            state['fired'] = True
            if mut == 'del_tail':
                while len(cont) > 3:
                    cont.pop()
            elif mut == 'del_first':
                del cont[0]
            elif mut == 'clear':
                cont.clear()
            elif mut == 'append':
                cont.append(ULf(100))
            elif mut == 'grow_many':
                cont.extend(ULf(1000 + i) for i in range(3000))
            elif mut == 'replace_rest':
                for j in range(len(cont)):
                    cont[j] = ULf(200 + j)
            elif mut == 'clear_then_allocate':
                cont.clear()
                gc.collect()
                state['new'] = [ULf(-1 - i) for i in range(64)] + [object() for _ in range(64)]
        state['n'] += 1

    if cb == 'unflatten_func':
        UNode.fire = fire
    elif cb == 'namedtuple __new__':
        UPtSub.fire = fire
    else:
        seen = set()

        def hook(which, key):
            # one event per dict node: the first hash of its first key while the dict is rebuilt
            if which == 'hash' and key.v < 10 and key.v not in seen:
                seen.add(key.v)
                fire('key hash')
        MKey.hook = hook
    try:
        if entry == 'treespec.unflatten':
            out = spec.unflatten(leaves)
        else:
            out = optree.tree_unflatten(spec, leaves)
    finally:
        UNode.fire = UPtSub.fire = MKey.hook = None
    # success: every leaf of the result must be a live object that is one of the originals or one the
    # mutation put into the container, and the container must hold exactly as many leaves as were used
    got = optree.tree_leaves(out, namespace='c16u')
    if len(got) != n:
        return ('inconsistent', f'result has {len(got)} leaves, treespec {n}')
    for j, x in enumerate(got):
        if type(x) is not ULf:
            return ('inconsistent', f'leaf {j} of the result is a {type(x).__name__}, not a leaf that was handed in')
        if x.i < 0:
            return ('inconsistent', f'leaf {j} of the result is an object allocated after the container was cleared')
        if 0 <= x.i < 9 and (id(x) != orig_ids[x.i] or wrs[x.i]() is not x):
            return ('inconsistent', f'leaf {j} of the result is not the live original it claims to be')
    # the callback at site k runs after 3 * (k + 1) of the 9 leaves have been taken: when leaves were still to be
    # taken, a container that no longer holds exactly n elements cannot have supplied them
    if lkind in ('list', 'list subclass') and state['fired'] and site_no < 2 and len(cont) != n:
        return ('inconsistent', f'unflatten succeeded although the leaves container now holds {len(cont)} elements, treespec {n}')
    return ('ok', n)


def run_unflatten_matrix(res, tier):
    optree.register_pytree_node(UNode, lambda u: (u.children, u.tag), lambda tag, ch: (UNode.fire and UNode.fire('unflatten_func'), UNode(list(ch), tag))[1],
                                namespace='c16u')
    items = []
    for cb in UNFL_CALLBACKS:
        for site_no in range(3):
            for mut in UNFL_MUTS:
                for lkind in UNFL_LEAVES:
                    for entry in UNFL_ENTRY:
                        for keep_alive in (True, False):
                            items.append((cb, site_no, mut, lkind, entry, keep_alive))
    outs = progress_forked(items, unfl_run, 30, res, 'unflatten mutation matrix')
    for it, o in zip(items, outs):
        res.evaluations += 1
        if o is None:
            continue
        tag = o[0]
        res.count('unfl_%s' % tag)
        if tag == 'inconsistent':
            res.fail('unflatten of leaves mutated by a callback returned an inconsistent result', repr(it), o[1])
        elif tag == 'raised' and o[1] in ('SystemError', 'InternalError'):
            res.fail('unflatten of leaves mutated by a callback raised an internal error', repr(it), o)
    optree.unregister_pytree_node(UNode, namespace='c16u')
    res.notes.append(f'unflatten mutation matrix: {len(items)} (callback, site, mutation, leaves container, entry point, leaves kept alive) cells')


# ---------------------------------------------------------------- argument confusion
def arg_pool():
    spec = optree.tree_structure({'a': (1, [2, None]), 'b': deque([3])})
    leafspec = optree.treespec_leaf()

    class Liar:
        def __len__(self):
            return 10 ** 6

        def __iter__(self):
            return iter(())

    class BadIter:
        def __iter__(self):
            raise KeyError('nope')

    class FakeType(type):
        def __instancecheck__(cls, o):
            return True
    Pt = namedtuple('Pt', 'x y')
    return [None, 0, -1, 2 ** 70, -2 ** 70, 1.5, float('nan'), 'x', '', b'x', [], (), {}, [1, [2]], (1, 2),
            {'a': 1}, object(), type, int, spec, leafspec, iter([1, 2]), (i for i in range(2)), lambda *a: None,
            set(), frozenset([1]), range(3), Liar(), BadIter(), Pt(1, 2), Pt, OrderedDict(a=1), defaultdict(int),
            deque([1]), os.terminal_size((1, 2)), os.terminal_size, NotImplemented, Ellipsis, True,
            [spec, spec], {'k': spec}, (leafspec,), optree.PyTreeKind.LEAF, slice(1, 2), bytearray(b'ab'),
            optree.tree_accessors([1, 2])[0], optree.PyTreeSpec, FakeType('F', (), {})]


def api_functions():
    fns = []
    for name in sorted(dir(optree)):
        if name.startswith('_'):
            continue
        f = getattr(optree, name)
        if callable(f) and not isinstance(f, type) and name not in ('dict_insertion_ordered',):
            fns.append(('optree.' + name, f))
    for name in sorted(dir(optree._C)):
        f = getattr(optree._C, name)
        if callable(f) and not isinstance(f, type) and not name.startswith('__') and 'register' not in name \
                and 'set_dict_insertion_ordered' not in name:
            fns.append(('optree._C.' + name, f))
    for name in sorted(dir(optree.PyTreeSpec)):
        if name.startswith('__') and name not in ('__setstate__', '__eq__', '__lt__', '__le__', '__gt__', '__ge__',
                                                  '__getitem__', '__contains__', '__call__', '__init__', '__new__'):
            continue
        f = getattr(optree.PyTreeSpec, name, None)
        if callable(f):
            fns.append(('PyTreeSpec.' + name, f))
    return fns


def confusion_run(item):
    fname, seed, count = item
    f = dict(api_functions())[fname]
    pool = arg_pool()
    rng = random.Random(seed)
    stats = {'ok': 0, 'raised': 0}
    for _ in range(count):
        nargs = rng.choice([0, 1, 1, 2, 2, 3, 4])
        args = [rng.choice(pool) for _ in range(nargs)]
        if fname.startswith('PyTreeSpec.') and rng.random() < 0.8:
            args = [optree.tree_structure({'a': (1, [2, None])})] + args
        kwargs = {}
        if rng.random() < 0.3:
            kwargs[rng.choice(['none_is_leaf', 'namespace', 'is_leaf', 'strict', 'key', 'initial'])] = rng.choice(pool)
        try:
            r = f(*args, **kwargs)
            if hasattr(r, '__next__'):
                for _i, _x in zip(range(5), r):
                    pass
            stats['ok'] += 1
        except RecursionError:
            stats['raised'] += 1
        except Exception as e:  # noqa: BLE001
            stats['raised'] += 1
            if isinstance(e, SystemError) and not isinstance(e, optree._C.InternalError):
                return ('systemerror', fname, repr(args)[:300], str(e)[:200])
    return ('done', stats['ok'], stats['raised'])


def run_confusion(res, tier, seed):
    count = 150 if tier == 'quick' else 3000
    names = [n for n, _ in api_functions()]
    items = [(n, seed * 7919 + i, count) for i, n in enumerate(names)]
    outs = progress_forked(items, confusion_run, 300, res, 'API function called with confused argument types')
    for it, o in zip(items, outs):
        res.evaluations += 1
        if o is None:
            continue
        if o[0] == 'systemerror':
            res.fail('an API function raised SystemError (error indicator mishandled)', repr(o[1:3]), o[3])
        elif o[0] == 'done':
            res.count('confusion_calls_ok', o[1])
            res.count('confusion_calls_raised', o[2])
    res.notes.append(f'argument confusion: {len(names)} API functions x {count} random argument tuples from a pool of {len(arg_pool())} objects')


# ---------------------------------------------------------------- treespec methods: out-of-range / forged state
def spec_args_run(item):
    which, seed = item
    rng = random.Random(seed)
    trees = [{'a': (1, [2, None]), 'b': deque([3])}, (1, 2, 3), [], None, 5, {'x': {}}, OrderedDict(z=[1, (2,)]),
             defaultdict(list, {'q': [1]}), os.terminal_size((1, 2)), namedtuple('P', 'a b')(1, [2])]
    tree = rng.choice(trees)
    spec = optree.tree_structure(tree)
    n = spec.num_children
    if which == 'child/entry':
        for i in list(range(-n - 3, n + 3)) + [2 ** 31, -2 ** 31, 2 ** 63 - 1, -2 ** 63]:
            for m in (spec.child, spec.entry):
                try:
                    m(i)
                except (IndexError, OverflowError, TypeError):
                    pass
        return ('ok',)
    if which == 'unflatten':
        for k in (0, 1, spec.num_leaves - 1, spec.num_leaves + 1, 100):
            for mk in (list, tuple, iter, lambda x: deque(x), lambda x: (i for i in x)):
                try:
                    spec.unflatten(mk(range(max(k, 0))))
                except (ValueError, TypeError):
                    pass
        return ('ok',)
    if which == 'forged state':
        state = spec.__getstate__()
        nodes = [list(nd) for nd in state[0]]
        results = []
        for trial in range(40):
            ns = [list(nd) for nd in nodes]
            i = rng.randrange(len(ns))
            field = rng.randrange(len(ns[i]))
            ns[i][field] = rng.choice([0, 1, -1, 5, 10 ** 9, -10 ** 9, None, 'x', (), [], {}, 2 ** 70, ns[i][field]])
            if rng.random() < 0.2 and len(ns) > 1:
                del ns[rng.randrange(len(ns))]
            if rng.random() < 0.1:
                ns.append(list(ns[0]))
            forged = (tuple(tuple(nd) for nd in ns),) + tuple(state[1:])
            s2 = optree.PyTreeSpec.__new__(optree.PyTreeSpec)
            try:
                s2.__setstate__(forged)
            except Exception as e:  # noqa: BLE001
                results.append(type(e).__name__)
                continue
            # accepted: everything must still be memory safe
            for op in (repr, hash, lambda s: s.paths(), lambda s: s.children(), lambda s: s.entries(),
                       lambda s: s.unflatten(range(s.num_leaves)), lambda s: s == spec, lambda s: s.is_prefix(spec),
                       lambda s: spec.is_prefix(s), lambda s: s.compose(spec), lambda s: pickle.dumps(s),
                       lambda s: s.one_level(), lambda s: s.accessors(), lambda s: s.flatten_up_to(tree),
                       lambda s: s.broadcast_to_common_suffix(spec), lambda s: s.transform(None, None),
                       lambda s: s.walk(range(s.num_leaves), lambda *a: None, None)):
                try:
                    op(s2)
                except Exception as e:  # noqa: BLE001
                    if isinstance(e, SystemError) and not isinstance(e, optree._C.InternalError):
                        return ('systemerror', repr(forged)[:400], str(e))
            results.append('accepted')
        return ('ok', results.count('accepted'))
    return ('ok',)


def run_spec_args(res, tier, seed):
    reps = 20 if tier == 'quick' else 300
    items = [(w, seed * 31 + i) for w in ('child/entry', 'unflatten', 'forged state') for i in range(reps)]
    outs = progress_forked(items, spec_args_run, 60, res, 'treespec method with out-of-range / forged arguments')
    for it, o in zip(items, outs):
        res.evaluations += 1
        if o is None:
            continue
        res.count('specargs_' + it[0].replace(' ', '_'))
        if o[0] == 'systemerror':
            res.fail('a treespec method raised SystemError on a forged state', o[1], o[2])
        elif o[0] == 'raised':
            res.fail('a treespec method raised an unexpected exception type for an out-of-range argument', repr(it), o)
        elif it[0] == 'forged state' and len(o) > 1:
            res.count('forged_states_accepted', o[1])


def run(res, tier, seed):
    if tier == 'asan':
        # sanitizer pass: everything that runs in forked children, at the quick sizes (the sanitizer
        # aborts the child on the first bad access, which progress_forked reports with its input)
        for name, f in (('selfref', lambda: run_selfref(res)),
                        ('mutation scripts', lambda: run_mutation_correspondence(res, 'quick')),
                        ('mutation matrix', lambda: run_wide_matrix(res, 'quick')),
                        ('unflatten mutation matrix', lambda: run_unflatten_matrix(res, 'quick')),
                        ('children/entries matrix', lambda: run_entries_matrix(res, 'asan')),
                        ('unflatten mutation scripts', lambda: run_unflatten_scripts(res, 'quick')),
                        ('treespec arguments', lambda: run_spec_args(res, 'quick', seed)),
                        ('argument confusion', lambda: run_confusion(res, 'quick', seed))):
            t0 = time.time()
            f()
            res.notes.append(f'section {name}: {time.time() - t0:.1f}s')
        return
    for name, f in (('depth', lambda: run_depth(res, tier)), ('selfref', lambda: run_selfref(res)),
                    ('mutation scripts', lambda: run_mutation_correspondence(res, tier)),
                    ('mutation matrix', lambda: run_wide_matrix(res, tier)),
                    ('unflatten mutation matrix', lambda: run_unflatten_matrix(res, tier)),
                    ('children/entries matrix', lambda: run_entries_matrix(res, tier)),
                    ('unflatten mutation scripts', lambda: run_unflatten_scripts(res, tier)),
                    ('treespec arguments', lambda: run_spec_args(res, tier, seed)),
                    ('argument confusion', lambda: run_confusion(res, tier, seed))):
        t0 = time.time()
        f()
        res.notes.append(f'section {name}: {time.time() - t0:.1f}s')


if __name__ == '__main__':
    runner.main(__import__('harness.props.c16', fromlist=['x']))
