"""C07 — prefix matching is exact and its three implementations agree.
Correspondence: cmd 3 (is_prefix both ways, strict, flatten_up_to). Oracle: three-way agreement of
flatten_up_to / is_prefix / prefix_errors, only ValueError, partition of the leaves, order laws."""
import random

import optree

from .. import gen, runner, sx, world
from ..world import attempt, abstract
from . import specops

PROP = 'C07'


def well_behaved(o):
    """no malformed custom nodes anywhere"""
    if o[0] != 1:
        return True
    h = o[1]
    if h[0] == 9 and (h[3][0] in (3, 4) or (h[3][0] == 2 and len(h[3]) - 1 != len(o) - 2)):
        return False
    return all(well_behaved(c) for c in o[2:])


def oracle_pair(res, case, t1, t2, s1, s2, kw1, kw2, out):
    res.evaluations += 1
    _, c1, o1, c2, o2 = case
    # flatten_up_to(t2) with s1 vs s1.is_prefix(structure of t2 under s1's own options, no predicate)
    kw = {'none_is_leaf': kw1['none_is_leaf'], 'namespace': s1.namespace or kw1['namespace']}
    u = attempt(lambda: s1.flatten_up_to(t2))
    if u[0] != 0 and u[1:] != (1,) and well_behaved(o2):
        res.fail('flatten_up_to raised something other than ValueError', case, u)
    full = attempt(lambda: optree.tree_structure(t2, none_is_leaf=kw1['none_is_leaf'], namespace=s1.namespace))
    if full[0] == 0 and well_behaved(o2) and well_behaved(o1):
        p = s1.is_prefix(full[1])
        if p != (u[0] == 0):
            res.fail('flatten_up_to succeeds but is_prefix is false (or the converse)', case,
                     f'up_to={u[0] == 0} is_prefix={p} spec={s1!r} full={full[1]!r}')
        if (s1 <= full[1]) != p or (full[1] >= s1) != p or full[1].is_suffix(s1) != p:
            res.fail('<= / >= / is_suffix are not the converses of is_prefix', case)
        strict = s1 < full[1]
        if strict != s1.is_prefix(full[1], strict=True) or (full[1] > s1) != strict:
            res.fail('< / > differ from strict is_prefix', case)
        if p:
            # a < b iff b has a non-leaf node where a has a leaf
            subs = u[1]
            has_internal = any(not optree.tree_is_leaf(x, none_is_leaf=kw1['none_is_leaf'], namespace=s1.namespace)
                               for x in subs)
            if strict != has_internal:
                res.fail('a < b does not coincide with "b has a non-leaf node where a has a leaf"', case)
            # partition
            parts = [optree.tree_leaves(x, none_is_leaf=kw1['none_is_leaf'], namespace=s1.namespace) for x in subs]
            flat = [id(l) for pl in parts for l in pl]
            allv = [id(l) for l in optree.tree_leaves(t2, none_is_leaf=kw1['none_is_leaf'], namespace=s1.namespace)]
            if sorted(flat) != sorted(allv):
                res.fail('subtrees returned by flatten_up_to do not partition the leaves of the tree', case)
            if len(subs) != s1.num_leaves:
                res.fail('flatten_up_to returns a different number of subtrees than treespec leaves', case)
            # the i-th subtree sits at the i-th path of the treespec
            for acc, sub in zip(s1.accessors(), subs):
                got = attempt(lambda: acc(t2))
                if got[0] == 0 and got[1] is not sub and all(type(e).__name__ != 'FlattenedEntry' for e in acc):
                    res.fail('i-th returned subtree is not the object at the i-th path', case, str(acc))
        # prefix_errors agrees (needs the prefix as a tree: t1 flattened with the same options and no predicate)
        if kw1.get('is_leaf') is None:
            pe = attempt(lambda: optree.prefix_errors(t1, t2, none_is_leaf=kw1['none_is_leaf'],
                                                      namespace=kw1['namespace']))
            s1b = optree.tree_structure(t1, none_is_leaf=kw1['none_is_leaf'], namespace=kw1['namespace'])
            u2 = attempt(lambda: s1b.flatten_up_to(t2))
            if pe[0] != 0:
                res.fail('prefix_errors raised', case, pe)
            elif (len(pe[1]) == 0) != (u2[0] == 0):
                res.fail('prefix_errors and flatten_up_to disagree', case,
                         f'prefix_errors={[str(e("x")) for e in pe[1]][:2]} up_to_ok={u2[0] == 0}')
    # order laws
    if not s1.is_prefix(s1) or s1.is_prefix(s1, strict=True):
        res.fail('is_prefix is not reflexive / strict is not irreflexive', case)
    if s1.is_prefix(s2) and s2.is_prefix(s1):
        # antisymmetric up to dict kind/order and deque maxlen: same leaves count and node count
        if s1.num_nodes != s2.num_nodes or s1.num_leaves != s2.num_leaves:
            res.fail('mutual prefixes with different sizes', case)


def oracle_trans(res, rng, limit):
    """transitivity on a chain prefix <= mid <= full"""
    from ..world import World, realize
    cfg = gen.gen_cfg(rng, limit)
    cfg = (cfg[0], cfg[1], 0, cfg[3], cfg[4], cfg[5])
    g = gen.TreeGen(rng, world.STRUCTSEQ_ARITY, max_nodes=25, max_depth=6, max_arity=4)
    full = g.tree()
    mid = gen.make_prefix(rng, gen.vary_dicts(rng, full), 0.25)
    pre = gen.make_prefix(rng, gen.vary_dicts(rng, mid), 0.25)
    with World(cfg) as w:
        kw = w.kw()
        ss = []
        for o in (pre, mid, full):
            r = attempt(lambda: optree.tree_structure(realize(o, rng, {}), **kw))
            if r[0] != 0:
                return
            ss.append(r[1])
        res.evaluations += 1
        a, b, c = ss
        if a.is_prefix(b) and b.is_prefix(c) and not a.is_prefix(c):
            res.fail('is_prefix is not transitive', (3, cfg, pre, cfg, full), sx.dump(mid))
        if not (a.is_prefix(b) and b.is_prefix(c)):
            res.count('chain_not_prefix')


def run(res, tier, seed):
    rng = random.Random(seed * 1000003 + 7)
    limit = optree.MAX_RECURSION_DEPTH
    n = 2500 if tier == 'quick' else 40000
    specops.run_pairs(res, rng, n, limit, hook=oracle_pair)
    for i in range(n // 3):
        oracle_trans(res, rng, limit)


if __name__ == '__main__':
    runner.main(__import__('harness.props.c07', fromlist=['x']))
