"""C07 — prefix matching is exact and its three implementations agree.
Correspondence: cmd 3 (is_prefix both ways, strict, flatten_up_to), cmd 25 (prefix_errors: the list of
(key path, error kind)). Oracle: three-way agreement of
flatten_up_to / is_prefix / prefix_errors, only ValueError, partition of the leaves, order laws."""
import random
from collections import OrderedDict

import optree

from .. import gen, runner, sx, world
from ..world import attempt, abstract
from . import specops

PROP = 'C07'


def well_behaved(o):
    """no malformed custom nodes anywhere"""
    if o[0] != 1:
        return True
    h = o[1]
    if h[0] == 9 and (h[3][0] in (3, 4) or (h[3][0] == 2 and len(h[3]) - 1 != len(o) - 2)):
        return False
    return all(well_behaved(c) for c in o[2:])


def oracle_pair(res, case, t1, t2, s1, s2, kw1, kw2, out):
    res.evaluations += 1
    _, c1, o1, c2, o2 = case
    # flatten_up_to(t2) with s1 vs s1.is_prefix(structure of t2 under s1's own options, no predicate)
    kw = {'none_is_leaf': kw1['none_is_leaf'], 'namespace': s1.namespace or kw1['namespace']}
    u = attempt(lambda: s1.flatten_up_to(t2))
    if u[0] != 0 and u[1:] != (1,) and well_behaved(o2):
        res.fail('flatten_up_to raised something other than ValueError', case, u)
    full = attempt(lambda: optree.tree_structure(t2, none_is_leaf=kw1['none_is_leaf'], namespace=s1.namespace))
    if full[0] == 0 and well_behaved(o2) and well_behaved(o1):
        p = s1.is_prefix(full[1])
        if p != (u[0] == 0):
            res.fail('flatten_up_to succeeds but is_prefix is false (or the converse)', case,
                     f'up_to={u[0] == 0} is_prefix={p} spec={s1!r} full={full[1]!r}')
        if (s1 <= full[1]) != p or (full[1] >= s1) != p or full[1].is_suffix(s1) != p:
            res.fail('<= / >= / is_suffix are not the converses of is_prefix', case)
        strict = s1 < full[1]
        if strict != s1.is_prefix(full[1], strict=True) or (full[1] > s1) != strict:
            res.fail('< / > differ from strict is_prefix', case)
        # the functional forms
        for st in (False, True):
            want = s1.is_prefix(full[1], strict=st)
            if optree.treespec_is_prefix(s1, full[1], strict=st) != want or optree.treespec_is_suffix(full[1], s1, strict=st) != want \
                    or full[1].is_suffix(s1, strict=st) != want:
                res.fail('treespec_is_prefix / treespec_is_suffix / is_suffix differ from is_prefix', case, f'strict={st}')
            back = full[1].is_prefix(s1, strict=st)
            if optree.treespec_is_prefix(full[1], s1, strict=st) != back or optree.treespec_is_suffix(s1, full[1], strict=st) != back:
                res.fail('treespec_is_prefix / treespec_is_suffix differ from is_prefix (converse direction)', case, f'strict={st}')
        if p:
            # a < b iff b has a non-leaf node where a has a leaf
            subs = u[1]
            has_internal = any(not optree.tree_is_leaf(x, none_is_leaf=kw1['none_is_leaf'], namespace=s1.namespace)
                               for x in subs)
            if strict != has_internal:
                res.fail('a < b does not coincide with "b has a non-leaf node where a has a leaf"', case)
            # partition
            parts = [optree.tree_leaves(x, none_is_leaf=kw1['none_is_leaf'], namespace=s1.namespace) for x in subs]
            flat = [id(l) for pl in parts for l in pl]
            allv = [id(l) for l in optree.tree_leaves(t2, none_is_leaf=kw1['none_is_leaf'], namespace=s1.namespace)]
            if sorted(flat) != sorted(allv):
                res.fail('subtrees returned by flatten_up_to do not partition the leaves of the tree', case)
            if len(subs) != s1.num_leaves:
                res.fail('flatten_up_to returns a different number of subtrees than treespec leaves', case)
            # the i-th subtree sits at the i-th path of the treespec
            for acc, sub in zip(s1.accessors(), subs):
                got = attempt(lambda: acc(t2))
                if got[0] == 0 and got[1] is not sub and all(type(e).__name__ != 'FlattenedEntry' for e in acc):
                    res.fail('i-th returned subtree is not the object at the i-th path', case, str(acc))
        # prefix_errors agrees (needs the prefix as a tree: t1 flattened with the same options and no predicate)
        if kw1.get('is_leaf') is None:
            pe = attempt(lambda: optree.prefix_errors(t1, t2, none_is_leaf=kw1['none_is_leaf'],
                                                      namespace=kw1['namespace']))
            s1b = optree.tree_structure(t1, none_is_leaf=kw1['none_is_leaf'], namespace=kw1['namespace'])
            u2 = attempt(lambda: s1b.flatten_up_to(t2))
            if pe[0] != 0:
                res.fail('prefix_errors raised', case, pe)
            elif (len(pe[1]) == 0) != (u2[0] == 0):
                res.fail('prefix_errors and flatten_up_to disagree', case,
                         f'prefix_errors={[str(e("x")) for e in pe[1]][:2]} up_to_ok={u2[0] == 0}')
    # order laws
    if not s1.is_prefix(s1) or s1.is_prefix(s1, strict=True):
        res.fail('is_prefix is not reflexive / strict is not irreflexive', case)
    if s1.is_prefix(s2) and s2.is_prefix(s1):
        # antisymmetric up to dict kind/order and deque maxlen: same leaves count and node count
        if s1.num_nodes != s2.num_nodes or s1.num_leaves != s2.num_leaves:
            res.fail('mutual prefixes with different sizes', case)


def oracle_trans(res, rng, limit):
    """transitivity on a chain prefix <= mid <= full"""
    from ..world import World, realize
    cfg = gen.gen_cfg(rng, limit)
    cfg = (cfg[0], cfg[1], 0, cfg[3], cfg[4], cfg[5])
    g = gen.TreeGen(rng, world.STRUCTSEQ_ARITY, max_nodes=25, max_depth=6, max_arity=4)
    full = g.tree()
    mid = gen.make_prefix(rng, gen.vary_dicts(rng, full), 0.25)
    pre = gen.make_prefix(rng, gen.vary_dicts(rng, mid), 0.25)
    with World(cfg) as w:
        kw = w.kw()
        ss = []
        for o in (pre, mid, full):
            r = attempt(lambda: optree.tree_structure(realize(o, rng, {}), **kw))
            if r[0] != 0:
                return
            ss.append(r[1])
        res.evaluations += 1
        a, b, c = ss
        if a.is_prefix(b) and b.is_prefix(c) and not a.is_prefix(c):
            res.fail('is_prefix is not transitive', (3, cfg, pre, cfg, full), sx.dump(mid))
        if not (a.is_prefix(b) and b.is_prefix(c)):
            res.count('chain_not_prefix')


PE_KIND = (('different types', 0), ('different pytree keys', 1), ('different numbers of pytree children', 2),
           ('different pytree metadata', 3))


def abs_perr(e):
    """(key path, kind) of one error closure returned by prefix_errors"""
    msg = str(e('x')).split('\n', 1)[0]
    kind = next((k for t, k in PE_KIND if t in msg), None)
    if kind is None:
        raise AssertionError('unclassified prefix error: ' + msg)
    acc = next(c.cell_contents for c in e.__closure__ if isinstance(c.cell_contents, optree.PyTreeAccessor))
    return (world.abs_path(acc.path), kind)


def run_prefix_errors(res, rng, n, limit):
    """cmd 25: the Python tree-vs-tree walk against the model, error list by error list"""
    cmds, obs = [], []
    for i in range(n):
        cfg = gen.gen_cfg(rng, limit)
        if rng.random() < 0.7:
            cfg = (cfg[0], cfg[1], 0, cfg[3], cfg[4], cfg[5])
        g = gen.TreeGen(rng, world.STRUCTSEQ_ARITY, max_nodes=rng.choice([6, 15, 30]),
                        max_depth=rng.choice([3, 5, 8]), max_arity=rng.choice([2, 3, 5]))
        if rng.random() < 0.5:
            o1, o2, label = gen.gen_pair(rng, g, world.STRUCTSEQ_ARITY)
            if rng.random() < 0.2:
                o1, o2 = o2, o1
        else:
            # one to three local edits of the full tree under an almost complete prefix: several errors
            o = g.tree()
            o1 = gen.make_prefix(rng, o, rng.choice([0.0, 0.05, 0.15]))
            o2 = gen.vary_dicts(rng, o) if rng.random() < 0.3 else o
            k = rng.choice([1, 1, 2, 3])
            for _ in range(k):
                o2 = gen.local_edit(rng, o2, world.STRUCTSEQ_ARITY)
            label = 'edits%d' % k
        if rng.random() < 0.1:
            # a custom node whose flatten function misbehaves, in either tree
            which = rng.randrange(2)
            o = (o1, o2)[which]
            cust = [(p, x) for p, x in gen._subtrees(o) if x[0] == 1 and x[1][0] == 9]
            if cust:
                p, x = rng.choice(cust)
                nn = len(x) - 2
                eb = rng.choice([(3, rng.choice([0, 1, 4, 5])), (4, rng.randrange(1, 50)),
                                 (2, *[(0, i) for i in range(nn + 1)])])
                o = gen._replace(o, p, (1, (9, x[1][1], x[1][2], eb), *x[2:]))
                o1, o2 = (o, o2) if which == 0 else (o1, o)
                label += '_spoiled'
        case = (25, cfg, o1, o2)
        with world.World(cfg) as w:
            r = random.Random(rng.getrandbits(48))
            t1, t2 = world.realize(o1, r, {}), world.realize(o2, r, {})
            kw = w.kw()
            pe = attempt(lambda: optree.prefix_errors(t1, t2, **kw))
            got = (0, tuple(abs_perr(e) for e in pe[1])) if pe[0] == 0 else pe
            # third leg of the three-way agreement, on the implementation
            st = attempt(lambda: optree.tree_structure(t1, **kw))
            if st[0] == 0 and well_behaved(o1) and well_behaved(o2):
                u = attempt(lambda: st[1].flatten_up_to(t2))
                res.evaluations += 1
                if pe[0] != 0:
                    res.fail('prefix_errors raised', case, pe)
                elif (len(pe[1]) == 0) != (u[0] == 0):
                    res.fail('prefix_errors and flatten_up_to disagree', case, f'errors={got} up_to={u[0]}')
                elif u[0] != 0 and u[1:] != (1,):
                    res.fail('flatten_up_to raised something other than ValueError', case, u)
        res.count('perr_' + label)
        res.count('perr_result_%s' % ('raised' if got[0] != 0 else ('none' if not got[1] else 'k%d' % got[1][0][1])))
        res.note_input(case, gen.obj_internal(o1) + gen.obj_internal(o2) >= 2)
        cmds.append(case)
        obs.append(got)
    mod = runner.run_model(cmds)
    for c, a, b in zip(cmds, obs, mod):
        res.compare(c, a, b, 'cmd_prefix_errors')
    for c in cmds[:1]:
        res.sample(sx.dump(c)[:500])


class Loose:
    """a registered container whose path entries are instance data that its metadata does not determine
    (outside the model's domain, where metadata determines the entries): entries are not part of the
    structure — treespec equality, is_prefix and flatten_up_to ignore them"""
    def __init__(self, children, meta, entries):
        self.children, self.meta, self.entries = list(children), meta, tuple(entries)


def oracle_loose_entries(res, rng, n):
    ns = 'verif-c07-loose'
    optree.register_pytree_node(Loose, lambda x: (x.children, x.meta, x.entries),
                                lambda meta, ch: Loose(ch, meta, range(len(list(ch)))), namespace=ns)
    try:
        for i in range(n):
            k = rng.randrange(0, 4)

            def sub(depth):
                r = rng.random()
                if depth <= 0 or r < 0.4:
                    return rng.randrange(100)
                if r < 0.6:
                    return (sub(depth - 1), sub(depth - 1))
                if r < 0.8:
                    return {'a': sub(depth - 1), 'b': sub(depth - 1)}
                m = rng.randrange(0, 3)
                return Loose([sub(depth - 1) for _ in range(m)], rng.randrange(2), rng.sample('pqrstuvw', m))
            meta = rng.randrange(2)
            a = Loose([rng.randrange(100) for _ in range(k)], meta, rng.sample('abcdefgh', k))
            # same class, metadata and arity by default; one of them changed now and then
            kb, metab = k, meta
            r = rng.random()
            if r < 0.15:
                kb = k + 1
            elif r < 0.3:
                metab = 1 - meta
            b = Loose([sub(2) for _ in range(kb)], metab, rng.sample('ijklmnop', kb) if rng.random() < 0.8 else a.entries[:kb] + tuple('z' * (kb - k)))
            wrap = rng.randrange(3)
            pa, pb = (a, b) if wrap == 0 else (((a, 1), (b, 2)) if wrap == 1 else ({'k': a}, OrderedDict(k=b)))
            case = ('loose-entries', k, kb, meta, metab, a.entries, b.entries, wrap)
            res.evaluations += 1
            sa = optree.tree_structure(pa, namespace=ns)
            sb = attempt(lambda: optree.tree_structure(pb, namespace=ns))
            u = attempt(lambda: sa.flatten_up_to(pb))
            pe = attempt(lambda: optree.prefix_errors(pa, pb, namespace=ns))
            expect_ok = (kb == k and metab == meta)
            res.count('loose_%s' % ('match' if expect_ok else 'mismatch'))
            if (u[0] == 0) != expect_ok or (u[0] != 0 and u[1:] != (1,)):
                res.fail('flatten_up_to on a custom node: wrong answer or not a ValueError', case, u)
            if sb[0] == 0 and sa.is_prefix(sb[1]) != expect_ok:
                res.fail('is_prefix on a custom node disagrees with flatten_up_to', case)
            if pe[0] != 0:
                res.fail('prefix_errors raised (custom nodes with equal metadata and different path entries)', case, pe)
            elif (len(pe[1]) == 0) != expect_ok:
                res.fail('prefix_errors and flatten_up_to disagree', case, str(len(pe[1])))
    finally:
        optree.unregister_pytree_node(Loose, namespace=ns)


def run(res, tier, seed):
    rng = random.Random(seed * 1000003 + 7)
    limit = optree.MAX_RECURSION_DEPTH
    n = 2500 if tier == 'quick' else 40000
    specops.run_pairs(res, rng, n, limit, hook=oracle_pair)
    for i in range(n // 3):
        oracle_trans(res, rng, limit)
    run_prefix_errors(res, rng, 1500 if tier == 'quick' else 25000, limit)
    oracle_loose_entries(res, rng, 300 if tier == 'quick' else 5000)


if __name__ == '__main__':
    runner.main(__import__('harness.props.c07', fromlist=['x']))
