"""C01 — flatten then unflatten reconstructs the same tree.
Correspondence: cmd 1 (flatten, flatten_with_path, iterator, unflatten) model vs implementation.
Oracle (search for a failing input on the implementation itself): exact structural round trip, leaf
identity, re-flatten equality, replacement leaves."""
import random

import optree

from .. import gen, runner, sx, world
from ..world import World, abstract, attempt, realize

PROP = 'C01'


def impl_traverse(cfg, o, rng, res=None, oracle=None):
    """implementation-side observation matching Run.v cmd_traverse"""
    with World(cfg) as w:
        leaves_tab = {}
        tree = realize(o, rng, leaves_tab)
        if abstract(tree) != o:
            raise AssertionError(f'realiser/abstractor self-check failed: {sx.dump(o)}')
        kw = w.kw()
        f = attempt(lambda: optree.tree_flatten(tree, **kw))
        out = []
        if f[0] == 0:
            ls, sp = f[1]
            out.append((0, (tuple(abstract(x) for x in ls), world.abs_spec(sp))))
        else:
            out.append(f)
        fp = attempt(lambda: optree.tree_flatten_with_path(tree, **kw))
        if fp[0] == 0:
            ps, ls2, sp2 = fp[1]
            out.append((0, (tuple(world.abs_path(p) for p in ps), tuple(abstract(x) for x in ls2),
                            world.abs_spec(sp2))))
        else:
            out.append(fp)
        it = attempt(lambda: list(optree.tree_iter(tree, **kw)))
        out.append((0, tuple(abstract(x) for x in it[1])) if it[0] == 0 else it)
        if f[0] == 0:
            u = attempt(lambda: sp.unflatten(ls))
            out.append((0, abstract(u[1])) if u[0] == 0 else u)
        else:
            out.append(())
        if oracle is not None and f[0] == 0:
            try:
                oracle(res, cfg, o, tree, ls, sp, kw)
            except AssertionError:
                raise
            except Exception as e:  # noqa: BLE001  (a raise here is the implementation failing on this input)
                res.fail('an operation on a tree that flattens raised', (1, cfg, o), f'{type(e).__name__}: {e}'[:400])
        return tuple(out)


def oracle_c01(res, cfg, o, tree, ls, sp, kw):
    case = (1, cfg, o)
    res.evaluations += 1
    rebuilt = sp.unflatten(ls)
    if abstract(rebuilt) != o:
        res.fail('unflatten(flatten(t)) is not structurally identical to t', case,
                 f'got {sx.dump(abstract(rebuilt))}')
        return
    ls2, sp2 = optree.tree_flatten(rebuilt, **kw)
    if len(ls2) != len(ls) or any(a is not b for a, b in zip(ls, ls2)):
        res.fail('re-flattening the rebuilt tree does not return the identical leaf objects', case)
    if not (sp2 == sp) or sp2 != sp or sp2.__getstate__() != sp.__getstate__() or hash(sp2) != hash(sp):
        res.fail('re-flattening the rebuilt tree gives a different treespec', case,
                 f'{sp} vs {sp2}')
    # replacement leaves: opaque objects are leaves under every predicate of the family
    new = [world.Opaque(100000 + i) for i in range(len(ls))]
    t2 = sp.unflatten(new)
    ls3, sp3 = optree.tree_flatten(t2, **kw)
    pred_stable = cfg[2] in (0, 5)   # predicates that look at children/positions may reclassify
    if len(ls3) == len(new) and all(a is b for a, b in zip(new, ls3)):
        if sp3 != sp and pred_stable:
            res.fail('flatten(unflatten(spec, new leaves)) has a different treespec', case, f'{sp} vs {sp3}')
    elif pred_stable or cfg[2] in (1, 2, 4):
        res.fail('flatten(unflatten(spec, new leaves)) does not return exactly the new leaves', case)


def gen_cases(rng, n, limit, res):
    cases = []
    for i in range(n):
        cfg = gen.gen_cfg(rng, limit)
        g = gen.TreeGen(rng, world.STRUCTSEQ_ARITY, max_nodes=rng.choice([6, 15, 40, 60]),
                        max_depth=rng.choice([3, 6, 12]), max_arity=rng.choice([2, 4, 8]))
        o = g.tree()
        cases.append((cfg, o))
        res.count('nodes_%s' % ('1' if gen.obj_nodes(o) == 1 else '2-10' if gen.obj_nodes(o) <= 10
                                else '11-30' if gen.obj_nodes(o) <= 30 else '31+'))
        res.count('ns_%d' % cfg[1])
        res.count('pred_%d' % cfg[2])
        res.count('nil_%d' % cfg[0])
        res.count('ins_%s' % ('on' if cfg[4] else 'off'))
        res.note_input((cfg, o), gen.obj_internal(o) >= 2)
    return cases


def run(res, tier, seed):
    rng = random.Random(seed * 1000003 + 1)
    limit = optree.MAX_RECURSION_DEPTH
    n = 2500 if tier == 'quick' else 40000
    cases = gen_cases(rng, n, limit, res)
    # depth cases: at the limit and one past it, every kind
    nodepth = 0
    for kind in ['tuple', 'list', 'dict', 'odict', 'ddict', 'deque', 'named', 'struct', 'custom']:
        for d in (limit - 1, limit, limit + 1, limit + 2):
            cfg = (0, 0, 0, ((0, 0, 1, 0),), (), limit)
            cases.append((cfg, gen.depth_tree(kind, d)))
            nodepth += 1
    res.count('depth_cases', nodepth)
    cmds, obs = [], []
    for (cfg, o) in cases:
        crng = random.Random(rng.getrandbits(48))
        obs.append(impl_traverse(cfg, o, crng, res, oracle_c01))
        cmds.append((1, cfg, o))
    # optree dataclasses and optree partial are custom nodes too: exact round trip on a sample of layouts
    from . import c19
    import itertools
    fk = list(itertools.product((1, 0), (1, 0), (0, 1, 2), (0, 1)))
    opt_sets = [{}, {'slots': True}, {'frozen': True}, {'kw_only': True}]
    dc_cmds, dc_obs = [], []
    for i in range(200 if tier == 'quick' else 3000):
        layout = tuple(rng.choice(fk) for _ in range(rng.randrange(1, 4)))
        c19.check_layout(res, layout, rng.choice(opt_sets), rng.choice(['decorator', 'make']), dc_cmds, dc_obs)
    c19.custom_init_checks(res)
    c19.partial_checks(res, rng)
    res.count('dataclass_layouts', len(dc_cmds))
    mod = runner.run_model(cmds)
    for c, a, b in zip(cmds, obs, mod):
        res.compare(c, a, b, 'cmd_traverse')
    for c in cmds[:3]:
        res.sample(sx.dump(c)[:600])


if __name__ == '__main__':
    runner.main(__import__('harness.props.c01', fromlist=['x']))
