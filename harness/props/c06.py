"""C06 — treespec equality means same structure, and equal treespecs hash equally.
Correspondence: cmd 3 (==, both directions, hash pattern). Oracle on the implementation: reflexive,
symmetric, != is the negation, a == b implies hash(a) == hash(b), usable as dict keys; equality is
independent of leaf values, of insertion order (sorted mode), and of the construction route
(flatten, children+constructor, transform, compose, broadcast, pickling)."""
import pickle
import random

import optree

from .. import gen, runner, sx, world
from ..world import World, realize, attempt
from . import specops

PROP = 'C06'


def routes(sp, tree, kw):
    """the same structure obtained in other ways"""
    out = {}
    out['pickle'] = attempt(lambda: pickle.loads(pickle.dumps(sp)))
    out['transform_id'] = attempt(lambda: sp.transform(lambda s: s, lambda s: s))
    out['compose_leaf'] = attempt(lambda: sp.compose(optree.treespec_leaf(none_is_leaf=kw['none_is_leaf'],
                                                                          namespace=kw['namespace'])))
    out['broadcast_self'] = attempt(lambda: sp.broadcast_to_common_suffix(sp))
    if not sp.is_leaf():
        it = iter(sp.children())
        out['children'] = attempt(lambda: sp.one_level().transform(None, lambda _l: next(it)))
    # other leaf values, same shape
    out['other_leaves'] = attempt(lambda: optree.tree_structure(
        sp.unflatten([world.Opaque(60000 + i) for i in range(sp.num_leaves)]), **kw))
    return out


def oracle_pair(res, case, t1, t2, s1, s2, kw1, kw2, out):
    res.evaluations += 1
    e12, e21 = s1 == s2, s2 == s1
    if e12 != e21:
        res.fail('== is not symmetric', case)
    if (s1 != s2) == e12:
        res.fail('!= is not the negation of ==', case)
    if not (s1 == s1) or not (s2 == s2):
        res.fail('== is not reflexive', case)
    if e12 and s1.none_is_leaf != s2.none_is_leaf:
        res.fail('treespecs produced with different none_is_leaf settings compare equal', case, f'{s1!r} / {s2!r}')
    if e12 and s1.namespace and s2.namespace and s1.namespace != s2.namespace:
        res.fail('treespecs with incompatible (different non-empty) namespaces compare equal', case,
                 f'{s1.namespace!r} / {s2.namespace!r}')
    if e12 and hash(s1) != hash(s2):
        res.fail('a == b but hash(a) != hash(b)', case, f'{s1!r} / {s2!r}')
    if e12 and len({s1, s2}) != 1:
        res.fail('equal treespecs are distinct set members', case)
    if e12 and {s1: 1}.get(s2) != 1:
        res.fail('equal treespecs are distinct dict keys', case)


def oracle_routes(res, cfg, o, rng):
    case = (2, cfg, o)
    with World(cfg) as w:
        tree = realize(o, rng, {})
        kw = w.kw()
        f = attempt(lambda: optree.tree_flatten(tree, **kw))
        if f[0] != 0:
            return
        sp = f[1][1]
        res.evaluations += 1
        pred_stable = cfg[2] in (0, 5)
        for name, r in routes(sp, tree, kw).items():
            if r[0] != 0:
                res.fail(f'construction route {name} raised', case, r)
                continue
            if name == 'other_leaves' and not pred_stable:
                continue
            if r[1] != sp or sp != r[1]:
                res.fail(f'treespec obtained through {name} is not == the flattened one', case, f'{sp!r} vs {r[1]!r}')
            elif hash(r[1]) != hash(sp):
                res.fail(f'treespec obtained through {name} is == but hashes differently', case)
        # insertion order independence (sorted mode only): rebuild every dict in another history
        if not cfg[4]:
            t2 = realize(o, random.Random(rng.getrandbits(32)), {})
            s2 = optree.tree_structure(t2, **kw)
            if s2 != sp or hash(s2) != hash(sp):
                res.fail('same logical tree built through another construction history gives a different treespec', case)


def run(res, tier, seed):
    rng = random.Random(seed * 1000003 + 6)
    limit = optree.MAX_RECURSION_DEPTH
    n = 2500 if tier == 'quick' else 40000
    specops.run_pairs(res, rng, n, limit, hook=oracle_pair)
    for i in range(n // 2):
        cfg = gen.gen_cfg(rng, limit)
        g = gen.TreeGen(rng, world.STRUCTSEQ_ARITY, max_nodes=rng.choice([6, 15, 30]),
                        max_depth=rng.choice([3, 6]), max_arity=rng.choice([2, 4, 6]))
        oracle_routes(res, cfg, g.tree(), random.Random(rng.getrandbits(48)))


if __name__ == '__main__':
    runner.main(__import__('harness.props.c06', fromlist=['x']))
