"""C19 — optree dataclasses and optree partial are faithful pytree nodes.
Correspondence: cmd 12 — the children / metadata partition of every field layout vs the model.
Enumerated: all layouts of up to 3 fields over (init, pytree_node, default kind, kw_only) x class
options (slots, frozen, kw_only) x {decorator, make_dataclass} (quick), 4 fields (thorough).
Oracle: children in declaration order, metadata = other init fields, entries = names, only in the
namespace, round trip with __post_init__ re-run, rejections, same class as dataclasses.dataclass;
partial: never merged, flattens to (args, keywords) + func in every namespace, rebuilt partial calls
the same function with the mapped arguments."""
import dataclasses
import functools
import itertools
import random

import optree
from optree import dataclasses as od

from .. import runner, sx, world
from ..world import attempt

PROP = 'C19'
NS = 'dcns'
COUNTER = [0]


def build(layout, opts, how):
    """layout: tuple of (init, node, default_kind, kw_only); returns (cls, post_counter) or raises"""
    COUNTER[0] += 1
    calls = []
    ann = {}
    body = {}
    fields_spec = []
    for i, (init, node, dk, kwo) in enumerate(layout):
        name = f'f{i}'
        kw = {'init': bool(init), 'pytree_node': bool(node)}
        if dk == 1:
            kw['default'] = 100 + i
        elif dk == 2:
            kw['default_factory'] = (lambda i=i: [200 + i])
        if kwo:
            kw['kw_only'] = True
        ann[name] = object
        body[name] = od.field(**kw)
        fields_spec.append((name, object, od.field(**kw)))

    def post(self):
        calls.append(1)
        for i, (init, node, dk, kwo) in enumerate(layout):
            if not init and dk == 0:
                object.__setattr__(self, f'f{i}', ('post', tuple(getattr(self, f'f{j}') if not isinstance(getattr(self, f'f{j}', None), list) else 'L'
                                                                 for j, l2 in enumerate(layout) if l2[0])))
    name = f'DC{COUNTER[0]}'
    if how == 'decorator':
        ns = dict(body)
        ns['__annotations__'] = ann
        ns['__post_init__'] = post
        cls = type(name, (), ns)
        cls = od.dataclass(cls, namespace=NS, **opts)
    else:
        cls = od.make_dataclass(name, fields_spec, ns={'__post_init__': post}, namespace=NS, **opts)
    return cls, calls


def std_build(layout, opts):
    ann, body = {}, {}
    for i, (init, node, dk, kwo) in enumerate(layout):
        name = f'f{i}'
        kw = {'init': bool(init)}
        if dk == 1:
            kw['default'] = 100 + i
        elif dk == 2:
            kw['default_factory'] = (lambda i=i: [200 + i])
        if kwo:
            kw['kw_only'] = True
        ann[name] = object
        body[name] = dataclasses.field(**kw)
    ns = dict(body)
    ns['__annotations__'] = ann
    return dataclasses.dataclass(type('S', (), ns), **opts)


def check_layout(res, layout, opts, how, cmds, obs):
    case = (12, tuple((i, l[0], l[1]) for i, l in enumerate(layout)))
    tag = f'{how} opts={opts} layout={layout}'
    res.evaluations += 1
    r = attempt(lambda: build(layout, opts, how))
    std = attempt(lambda: std_build(layout, opts))
    bad_node = any(node and not init for (init, node, dk, kwo) in layout)
    if std[0] != 0:
        # the standard library itself rejects this layout (e.g. non-default after default)
        if r[0] == 0:
            res.fail('optree accepted a field layout the standard dataclass rejects', case, tag)
        return
    if bad_node:
        if r[0] == 0:
            res.fail('a non-init field declared as a pytree node was accepted', case, tag)
        elif r[1:] != (2,):
            res.fail('a non-init pytree-node field raised something other than TypeError', case, f'{tag} {r}')
        cmds.append(case)
        obs.append((0, (), ()))
        return
    if r[0] != 0:
        res.fail('optree dataclass rejected a valid layout', case, f'{tag} {r}')
        return
    cls, calls = r[1]
    try:
        children_f, metadata_f = getattr(cls, '__optree_dataclass_fields__')
        cmds.append(case)
        obs.append((1, tuple(int(n[1:]) for n in children_f), tuple(int(n[1:]) for n in metadata_f)))
        # an instance
        args, kwargs = [], {}
        for i, (init, node, dk, kwo) in enumerate(layout):
            if init:
                v = (world.Opaque(500 + i), [world.Opaque(600 + i)]) if node else ('meta', i)
                if kwo or opts.get('kw_only'):
                    kwargs[f'f{i}'] = v
                else:
                    args.append(v)
        # positional arguments must respect "defaults last": use keywords for everything to be safe
        kwargs.update({f'f{i}': v for (i, l), v in zip([(i, l) for i, l in enumerate(layout) if l[0] and not (l[3] or opts.get('kw_only'))], args)})
        x = cls(**kwargs)
        ncalls = len(calls)
        ls, spec = optree.tree_flatten(x, namespace=NS)
        want_children = [getattr(x, f'f{i}') for i, l in enumerate(layout) if l[1]]
        want_leaves = [y for c in want_children for y in (c[0], c[1][0])]
        if len(ls) != len(want_leaves) or any(a is not b for a, b in zip(ls, want_leaves)):
            res.fail('dataclass does not flatten to its pytree_node fields in declaration order', case, tag)
        node = spec.__getstate__()[0][-1]
        want_meta = tuple((f'f{i}', getattr(x, f'f{i}')) for i, l in enumerate(layout) if not l[1] and l[0])
        if node[2] != want_meta:
            res.fail('dataclass metadata is not its other init fields', case, f'{tag} {node[2]}')
        if tuple(spec.entries()) != tuple(f'f{i}' for i, l in enumerate(layout) if l[1]):
            res.fail('dataclass children are not addressed by field name', case, tag)
        for acc, leaf in zip(optree.tree_accessors(x, namespace=NS), ls):
            if acc(x) is not leaf:
                res.fail('dataclass accessor does not reach the leaf', case, tag)
                break
        # only in the namespace
        for other in ('', 'elsewhere'):
            if optree.tree_leaves(x, namespace=other) != [x]:
                res.fail('dataclass is a node outside its namespace', case, tag)
        rb = attempt(lambda: spec.unflatten(ls))
        if rb[0] != 0:
            res.fail('unflatten of a flattened dataclass raised', case, f'{tag} {rb}')
            return
        back = rb[1]
        if type(back) is not cls or len(calls) != ncalls + 1:
            res.fail('unflatten does not rebuild an instance of the class with __post_init__ re-run', case,
                     f'{tag} type={type(back).__name__} post_calls={len(calls) - ncalls}')
        else:
            same = all((getattr(back, f'f{i}') is getattr(x, f'f{i}')) or (getattr(back, f'f{i}') == getattr(x, f'f{i}'))
                       for i in range(len(layout)))
            if not same or (opts.get('eq', True) and back != x):
                res.fail('unflatten(flatten(x)) is not equal to x', case, tag)
        rm = attempt(lambda: optree.tree_map(lambda v: ('m', v), x, namespace=NS))
        mapped = rm[1] if rm[0] == 0 else None
        if type(mapped) is not cls:
            res.fail('tree_map over a dataclass does not rebuild the class', case, tag)
        # otherwise the class dataclasses.dataclass would produce
        sc = std[1]
        a = [(f.name, f.init, f.kw_only, f.default is dataclasses.MISSING, f.default_factory is dataclasses.MISSING)
             for f in dataclasses.fields(cls)]
        b = [(f.name, f.init, f.kw_only, f.default is dataclasses.MISSING, f.default_factory is dataclasses.MISSING)
             for f in dataclasses.fields(sc)]
        if a != b:
            res.fail('fields differ from what dataclasses.dataclass produces', case, f'{tag} {a} vs {b}')
        for attr in ('__match_args__', '__slots__'):
            if getattr(cls, attr, None) != getattr(sc, attr, None):
                res.fail(f'{attr} differs from what dataclasses.dataclass produces', case, tag)
        if cls.__dataclass_params__.frozen != sc.__dataclass_params__.frozen:
            res.fail('frozen flag differs from the standard dataclass', case, tag)
        if opts.get('frozen'):
            r2 = attempt(lambda: setattr(x, 'f0', 1))
            if r2[0] == 0:
                res.fail('a frozen optree dataclass can be mutated', case, tag)
        # decorating twice
        r3 = attempt(lambda: od.dataclass(cls, namespace=NS))
        if r3[0] == 0 or r3[1:] != (2,):
            res.fail('decorating a class twice is not rejected with TypeError', case, f'{tag} {r3}')
    finally:
        optree.unregister_pytree_node(cls, namespace=NS)


def custom_init_checks(res):
    """init=False on the decorator with a hand-written __init__ whose parameter order differs from the
    field order, and classes without metadata fields (positional fast paths must not be taken)"""
    for variant in range(4):
        res.evaluations += 1

        class R:
            a: object
            b: object
            c: object = od.field(default=None, pytree_node=(variant % 2 == 0))

            def __init__(self, c=None, b=None, a=None):
                self.a, self.b, self.c = a, b, c
        cls = od.dataclass(R, init=False, namespace=NS, eq=True)
        try:
            x = cls(a=world.Opaque(1), b=world.Opaque(2), c=world.Opaque(3))
            ls, spec = optree.tree_flatten(x, namespace=NS)
            rb = attempt(lambda: spec.unflatten(ls))
            if rb[0] != 0 or rb[1] != x or any(getattr(rb[1], n) is not getattr(x, n) for n in 'abc'):
                res.fail('round trip of a dataclass with a hand-written __init__ permutes or loses fields', f'custom-init variant {variant}', rb)
            new = [world.Opaque(50 + i) for i in range(len(ls))]
            r2 = attempt(lambda: optree.tree_leaves(spec.unflatten(new), namespace=NS))
            if r2[0] != 0 or any(p is not q for p, q in zip(r2[1], new)):
                res.fail('replacement leaves do not come back in order for a dataclass with a hand-written __init__', f'custom-init variant {variant}')
        finally:
            optree.unregister_pytree_node(cls, namespace=NS)


def partial_checks(res, rng):
    P = optree.functools.partial
    calls = []

    def f(*a, **k):
        calls.append((a, tuple(sorted(k.items()))))
        return len(a) + len(k)
    for it in range(200):
        res.evaluations += 1
        depth = rng.randrange(1, 4)
        inner_kind = rng.choice(['fn', 'std', 'opt'])
        args0 = tuple(world.Opaque(1000 + i) for i in range(rng.randrange(0, 3)))
        kw0 = {k: world.Opaque(1100 + i) for i, k in enumerate(rng.sample(['a', 'b', 'c'], rng.randrange(0, 3)))}
        base = f if inner_kind == 'fn' else (functools.partial(f, *args0, **kw0) if inner_kind == 'std' else P(f, *args0, **kw0))
        args = tuple((world.Opaque(1200 + i), [world.Opaque(1300 + i)]) for i in range(rng.randrange(0, 3)))
        kws = {k: {'z': world.Opaque(1400 + i)} for i, k in enumerate(rng.sample(['a', 'b', 'd'], rng.randrange(0, 3)))}
        p = P(base, *args, **kws)
        case = f'partial({inner_kind}, {len(args)} args, kw={sorted(kws)})'
        if p.args != args or p.keywords != kws:
            res.fail('optree partial merged its arguments with a nested partial', case)
        for ns in ('', 'a', 'unknown'):
            ls, spec = optree.tree_flatten(p, namespace=ns)
            node = spec.__getstate__()[0][-1]
            if int(node[0]) != 0 or spec.entries() != ['args', 'keywords'] or spec.num_children != 2:
                res.fail('optree partial does not flatten to (args, keywords) in every namespace', case, ns)
            want = [y for a in args for y in (a[0], a[1][0])] + [kws[k]['z'] for k in sorted(kws)]
            if [id(x) for x in ls] != [id(x) for x in want]:
                res.fail('optree partial leaves are not its positional then keyword pytrees', case, ns)
            md = node[2]
            if not (md is p.func or md == p.func):
                res.fail('optree partial metadata is not the wrapped callable', case, ns)
        q = optree.tree_map(lambda v: ('m', v), p)
        if type(q) is not P or q.func != p.func:
            res.fail('tree_map over a partial does not keep the function', case)
        del calls[:]
        extra = world.Opaque(1)
        r1 = p(extra, k9=2)
        c1 = list(calls)
        del calls[:]
        r2 = q(extra, k9=2)
        c2 = list(calls)
        if len(c1) != 1 or len(c2) != 1 or r1 != r2:
            res.fail('the rebuilt partial does not call the same function once', case)
        else:
            (a1, k1), (a2, k2) = c1[0], c2[0]
            if len(a1) != len(a2) or [n for n, _ in k1] != [n for n, _ in k2]:
                res.fail('the rebuilt partial calls the function with a different argument shape', case)
            else:
                # mapped positions carry ('m', v); the others are unchanged
                mp = optree.tree_map(lambda v: ('m', v), (args, kws))
                for x, y in list(zip(a1, a2)) + [(v, w) for (_, v), (_, w) in zip(k1, k2)]:
                    if x is y:
                        continue
                    if not any(y is m or y == m for m in list(mp[0]) + list(mp[1].values())):
                        res.fail('the rebuilt partial does not pass the mapped arguments', case, f'{x} -> {y}')
                        break
                # keyword precedence: the outer / mapped keyword wins over an inner partial keyword
                for (n, v), (_, w) in zip(k1, k2):
                    if n in kws and not (w == ('m', kws[n]['z']) or w == {'z': ('m', kws[n]['z'])}):
                        res.fail('a keyword bound on the optree partial is overridden by the nested partial', case, n)


def run(res, tier, seed):
    rng = random.Random(seed * 1000003 + 19)
    maxf = 3 if tier == 'quick' else 4
    cmds, obs = [], []
    field_kinds = list(itertools.product((1, 0), (1, 0), (0, 1, 2), (0, 1)))    # init, node, default kind, kw_only
    opt_sets = [{}, {'slots': True}, {'frozen': True}, {'kw_only': True}, {'slots': True, 'frozen': True}, {'eq': False}]
    n = 0
    for k in range(0, maxf + 1):
        layouts = list(itertools.product(field_kinds, repeat=k))
        if len(layouts) > 3000:
            layouts = rng.sample(layouts, 3000)
        for layout in layouts:
            opts = opt_sets[n % len(opt_sets)] if k >= 2 else {}
            how = 'decorator' if n % 2 == 0 else 'make'
            n += 1
            res.count(f'fields_{k}')
            res.count(how)
            res.note_input((layout, tuple(sorted(opts.items())), how), k >= 2)
            check_layout(res, layout, opts, how, cmds, obs)
    mod = runner.run_model(cmds)
    for c, a, b in zip(cmds, obs, mod):
        if a[0] == 0:
            if b[0] != 0:
                res.compare(c, (0,), (b[0],), 'cmd_dataclass_reject')
            continue
        res.compare(c, a, b, 'cmd_dataclass')
    # empty namespace, global namespace
    r = attempt(lambda: od.dataclass(type('E', (), {'__annotations__': {'x': int}}), namespace=''))
    res.evaluations += 1
    if r[0] == 0 or r[1:] != (1,):
        res.fail('an empty namespace is not rejected with ValueError', 'namespace=""', r)
    custom_init_checks(res)
    partial_checks(res, rng)
    res.notes.append(f'all layouts of <= {min(maxf, 2)} fields enumerated; {maxf}-field layouts sampled (3000)')
    for c in cmds[3:6]:
        res.sample(sx.dump(c))


if __name__ == '__main__':
    runner.main(__import__('harness.props.c19', fromlist=['x']))
