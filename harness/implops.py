"""Implementation-side observations matching Run.v cmd_inspect (2) and cmd_pair (3)."""
import optree

from . import world
from .world import World, abstract, attempt, realize

ENTRY_CODES = None


def entry_code(e):
    global ENTRY_CODES
    if ENTRY_CODES is None:
        ENTRY_CODES = {optree.SequenceEntry: 1, optree.MappingEntry: 2, optree.NamedTupleEntry: 3,
                       optree.StructSequenceEntry: 4}
    t = type(e)
    if int(e.kind) == 0:
        return 100 + {optree.SequenceEntry: 1, optree.MappingEntry: 2, optree.GetAttrEntry: 3,
                      optree.FlattenedEntry: 4}.get(t, 98)
    return ENTRY_CODES.get(t, 98)


def type_code(t):
    from collections import OrderedDict, defaultdict, deque
    if t is tuple:
        return (0, 0)
    if t is list:
        return (1, 0)
    if t is dict:
        return (2, 0)
    if t is OrderedDict:
        return (3, 0)
    if t is defaultdict:
        return (4, 0)
    if t is deque:
        return (5, 0)
    if hasattr(t, '_verif'):
        return (6, t._verif[0])
    if t in world.STRUCTSEQ:
        return (7, world.STRUCTSEQ.index(t))
    if t in world.CUST:
        return (8, world.CUST.index(t))
    if t is type(None):
        return (9, 0)
    if t is None:
        return (10, 0)
    return (98, 0)


def abs_accessor(acc):
    return tuple((world.abs_key(e.entry), entry_code(e), *type_code(e.type), int(e.kind)) for e in acc)


def res_spec(r):
    return (0, world.abs_spec(r[1])) if r[0] == 0 else r


def impl_inspect(cfg, o, rng):
    with World(cfg) as w:
        tree = realize(o, rng, {})
        kw = w.kw()
        f = attempt(lambda: optree.tree_flatten(tree, **kw))
        if f[0] != 0:
            return f
        ls, sp = f[1]
        n = sp.num_children
        idx = list(range(-n - 1, n + 1))
        head = (0, (sp.num_leaves, sp.num_nodes, sp.num_children, int(sp.kind), 1 if sp.is_leaf() else 0,
                    1 if sp.is_one_level() else 0, type_code(sp.type)))
        assert len(sp) == sp.num_leaves
        pths = attempt(lambda: tuple(world.abs_path(p) for p in sp.paths()))
        accs = attempt(lambda: tuple(abs_accessor(a) for a in sp.accessors()))
        return (head,
                pths[1] if pths[0] == 0 else pths,
                accs[1] if accs[0] == 0 else accs,
                tuple(world.abs_spec(c) for c in sp.children()),
                tuple(res_spec(attempt(lambda i=i: sp.child(i))) for i in idx),
                tuple(world.abs_key(e) for e in sp.entries()),
                tuple((lambda r: (0, world.abs_key(r[1])) if r[0] == 0 else r)(attempt(lambda i=i: sp.entry(i)))
                      for i in idx),
                world.abs_spec(sp.one_level()) if not sp.is_leaf() else world.abs_spec(sp),
                1,
                (0, pths[1]) if pths[0] == 0 else pths,     # again, for the array-level model of Paths
                (0, accs[1]) if accs[0] == 0 else accs)     # and of Accessors


def switch_registry(old, new):
    """turn the registry described by `old` into `new` (a changed registration id = unregistered and registered again)"""
    oldm = {(c, n): (rid, pet) for (c, n, rid, pet) in old}
    newm = {(c, n): (rid, pet) for (c, n, rid, pet) in new}
    for key, v in oldm.items():
        if newm.get(key) != v:
            optree.unregister_pytree_node(world.CUST[key[0]], namespace=world.ns_reg(key[1]))
    for key, v in newm.items():
        if oldm.get(key) != v:
            kw = {}
            if world.PET[v[1]] is not None:
                kw['path_entry_type'] = world.PET[v[1]]
            optree.register_pytree_node(world.CUST[key[0]], world.cust_flatten,
                                        world.cust_unflatten_for(world.CUST[key[0]]),
                                        namespace=world.ns_reg(key[1]), **kw)


def impl_pair(cfg1, o1, cfg2, o2, rng, hook=None):
    # both configurations share the mode set; the registry of the second one is in force from the moment the
    # first tree has been flattened (normally the same registry)
    with World(cfg1) as w1:
        try:
            return _impl_pair(w1, cfg1, o1, cfg2, o2, rng, hook)
        finally:
            if cfg2[3] != cfg1[3]:
                switch_registry(cfg2[3], cfg1[3])


def _impl_pair(w1, cfg1, o1, cfg2, o2, rng, hook):
    if True:
        w2 = World(cfg2)
        t1 = realize(o1, rng, {})
        t2 = realize(o2, rng, {})
        kw1, kw2 = w1.kw(), w2.kw()
        f1 = attempt(lambda: optree.tree_flatten(t1, **kw1))
        if cfg2[3] != cfg1[3]:
            switch_registry(cfg1[3], cfg2[3])
        f2 = attempt(lambda: optree.tree_flatten(t2, **kw2))
        if f1[0] != 0 or f2[0] != 0:
            return (5,)
        s1, s2 = f1[1][1], f2[1][1]
        eq12, eq21 = s1 == s2, s2 == s1
        out = [0, 1 if eq12 else 0, 1 if eq21 else 0,
               1 if (eq12 and hash(s1) == hash(s2)) else 0,
               1 if s1.is_prefix(s2) else 0, 1 if s1.is_prefix(s2, strict=True) else 0,
               1 if s2.is_prefix(s1) else 0, 1 if s2.is_prefix(s1, strict=True) else 0]
        u = attempt(lambda: s1.flatten_up_to(t2))
        out.append((0, tuple(abstract(x) for x in u[1])) if u[0] == 0 else u)
        out.append(res_spec(attempt(lambda: s1.broadcast_to_common_suffix(s2))))
        out.append(res_spec(attempt(lambda: s2.broadcast_to_common_suffix(s1))))
        out.append(res_spec(attempt(lambda: s1.compose(s2))))
        out.append(res_spec(attempt(lambda: s1.transform(None, lambda leafspec: s2))))
        # again, for the array-level model of the IsPrefix loop
        out += [(0, out[4]), (0, out[5]), (0, out[6]), (0, out[7])]
        # and of the FlattenUpTo loop
        out.append(out[8])
        # and of the BroadcastToCommonSuffix walk
        out += [out[9], out[10]]
        # and of the Compose pass
        out.append(out[11])
        # and of the Transform pass
        out.append(out[12])
        if hook is not None:
            hook(t1, t2, s1, s2, kw1, kw2, out)
        return tuple(out)
