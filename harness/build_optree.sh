#!/bin/bash
# Rebuild the optree extension from /repo's *current working tree* into a scratch directory.
# usage: build_optree.sh <outdir> [asan]
# Result: <outdir>/optree/ (python package copied from /repo/optree + freshly compiled _C.so)
# Object files are cached under <outdir>/obj keyed by the source hash of all src+include files.
set -euo pipefail
REPO=${VERIF_REPO:-/repo}
OUT=$1
MODE=${2:-plain}
PYINC=/root/.pyenv/versions/3.12.1/include/python3.12
PB11=/venv/lib/python3.12/site-packages/torch/include
mkdir -p "$OUT/obj" "$OUT/optree"
FLAGS="-O1 -std=c++20 -fPIC -fvisibility=hidden -w -I$REPO/include -I$PB11 -I$PYINC"
LDFLAGS="-shared"
if [ "$MODE" = asan ]; then
  FLAGS="$FLAGS -g -fsanitize=address,undefined -fno-omit-frame-pointer"
  LDFLAGS="$LDFLAGS -fsanitize=address,undefined"
fi
[ -n "${OPTREE_VERIF:-}" ] && FLAGS="$FLAGS -DOPTREE_VERIF=1"
SRCS=$(ls $REPO/src/*.cpp $REPO/src/treespec/*.cpp)
compile_one() {
  src=$1; o="$OUT/obj/$(echo "$src" | md5sum | cut -c1-12)_$(basename "$src" .cpp).o"
  g++ $FLAGS -c "$src" -o "$o"
}
export -f compile_one; export FLAGS OUT
echo "$SRCS" | xargs -P16 -I{} bash -c 'compile_one {}'
g++ $LDFLAGS "$OUT"/obj/*.o -o "$OUT/optree/_C.cpython-312-x86_64-linux-gnu.so"
# python layer: copy (not link) so later edits to /repo do not leak into a running check
rsync -a --delete --exclude '__pycache__' --exclude '_C*.so' "$REPO/optree/" "$OUT/optree/"
rm -rf "$OUT/obj"
echo "built $OUT/optree"
