"""S-expressions of integers: the wire format shared with the extracted Coq model (coq/theories/Wire.v)."""


def dump(x):
    """iterative (trees deeper than the recursion limit are inputs)"""
    out = []
    stack = [x]
    CLOSE = object()
    first = [True]
    while stack:
        y = stack.pop()
        if y is CLOSE:
            out.append(')')
            first.pop()
            continue
        if not first[-1]:
            out.append(' ')
        first[-1] = False
        if isinstance(y, bool):
            out.append('1' if y else '0')
        elif isinstance(y, int):
            out.append(str(y))
        elif isinstance(y, (str, bytes, float)) or y is None:
            out.append(repr(y))        # only in reports: such values never go to the model
        else:
            out.append('(')
            first.append(True)
            stack.append(CLOSE)
            stack.extend(reversed(y))
    return ''.join(out)


def parse(s):
    pos = 0
    n = len(s)
    stack = [[]]
    while pos < n:
        ch = s[pos]
        if ch == '(':
            stack.append([])
            pos += 1
        elif ch == ')':
            top = stack.pop()
            stack[-1].append(tuple(top))
            pos += 1
        elif ch in ' \t\r\n':
            pos += 1
        else:
            st = pos
            while pos < n and s[pos] not in ' ()\t\r\n':
                pos += 1
            stack[-1].append(int(s[st:pos]))
    assert len(stack) == 1 and len(stack[0]) == 1, 'malformed s-expression'
    return stack[0][0]


def size(x):
    if isinstance(x, int):
        return 1
    return 1 + sum(size(y) for y in x)
