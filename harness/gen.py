"""Generator of abstract inputs (trees, configurations). All randomness comes from the rng passed in."""
import random

STRUCT_ARITY = None  # filled from world.STRUCTSEQ_ARITY by the caller (keeps gen importable alone)

KEY_MIXES = ['str', 'int', 'num', 'stage2', 'unsortable', 'none', 'tuple', 'ord', 'mixed_ord']


def gen_key(rng, mix):
    if mix == 'str':
        return (2, *[rng.choice([97, 98, 99, 65, 122, 48]) for _ in range(rng.randrange(0, 4))])
    if mix == 'int':
        return (0, rng.randrange(-5, 30))
    if mix == 'num':
        return rng.choice([(0, rng.randrange(-5, 10)), (1, rng.randrange(-5, 10))])
    if mix == 'tuple':
        return (4, *[rng.randrange(0, 4) for _ in range(rng.randrange(0, 3))])
    if mix == 'ord':
        return (6, 0, rng.randrange(0, 10))
    if mix == 'mixed_ord':
        return (6, rng.randrange(0, 3), rng.randrange(0, 10))
    if mix == 'stage2':
        return rng.choice([(0, rng.randrange(0, 10)), (2, 97 + rng.randrange(0, 5)), (1, rng.randrange(0, 5)),
                           (4, rng.randrange(0, 3)), (3,), (6, rng.randrange(0, 2), rng.randrange(0, 6))])
    if mix == 'none':
        return rng.choice([(3,), (2, 97 + rng.randrange(0, 5)), (2, 97 + rng.randrange(0, 5))])
    if mix == 'unsortable':
        return rng.choice([(5, rng.randrange(0, 6)), (7, rng.randrange(0, 2), rng.randrange(0, 6)),
                           (0, rng.randrange(0, 10)), (2, 97 + rng.randrange(0, 5)), (3,)])
    raise ValueError(mix)


def gen_keys(rng, n, mix=None):
    mix = mix or rng.choice(KEY_MIXES)
    ks = []
    tries = 0
    while len(ks) < n and tries < 200:
        k = gen_key(rng, mix)
        tries += 1
        if k not in ks:
            ks.append(k)
    return ks


class TreeGen:
    def __init__(self, rng, struct_arity, max_nodes=40, max_depth=8, max_arity=5,
                 custom_classes=(0, 1, 2, 3, 4, 5), malformed=False, none_p=0.08):
        self.rng = rng
        self.struct_arity = struct_arity
        self.max_nodes = max_nodes
        self.max_depth = max_depth
        self.max_arity = max_arity
        self.custom_classes = custom_classes
        self.malformed = malformed
        self.none_p = none_p
        self.next_id = 0
        self.budget = 0

    def leaf(self):
        self.next_id += 1
        return (0, self.next_id)

    def tree(self, kinds=None):
        self.budget = self.rng.randrange(1, self.max_nodes + 1)
        return self._tree(0, kinds)

    def _children(self, n, depth, kinds):
        return [self._tree(depth + 1, kinds) for _ in range(n)]

    def _tree(self, depth, kinds=None):
        rng = self.rng
        self.budget -= 1
        if depth >= self.max_depth or self.budget <= 0 or rng.random() < 0.25:
            if rng.random() < self.none_p:
                return (1, (0,))
            return self.leaf()
        kind = rng.choice(kinds or ['tuple', 'list', 'dict', 'odict', 'ddict', 'deque', 'named', 'struct',
                                    'custom', 'none', 'dict', 'tuple'])
        n = rng.randrange(0, self.max_arity + 1)
        if kind == 'none':
            return (1, (0,))
        if kind == 'tuple':
            return (1, (1,), *self._children(n, depth, kinds))
        if kind == 'list':
            return (1, (2,), *self._children(n, depth, kinds))
        if kind in ('dict', 'odict', 'ddict'):
            ks = gen_keys(rng, n)
            cs = self._children(len(ks), depth, kinds)
            if kind == 'dict':
                return (1, (3, *ks), *cs)
            if kind == 'odict':
                return (1, (4, *ks), *cs)
            return (1, (5, rng.randrange(0, 5), *ks), *cs)
        if kind == 'deque':
            cs = self._children(n, depth, kinds)
            r = rng.random()
            if r < 0.4:
                return (1, (6,), *cs)
            if r < 0.7:
                return (1, (6, n), *cs)
            return (1, (6, n + rng.choice([1, 2, 3, 300, 1000, 70000])), *cs)
        if kind == 'named':
            return (1, (7, rng.randrange(0, 4)), *self._children(n, depth, kinds))
        if kind == 'struct':
            c = rng.randrange(0, len(self.struct_arity))
            if self.struct_arity[c] > 5 and rng.random() < 0.7:
                c = rng.choice([i for i, a in enumerate(self.struct_arity) if a <= 5])
            return (1, (8, c), *self._children(self.struct_arity[c], depth, kinds))
        if kind == 'custom':
            cls = rng.choice(self.custom_classes)
            cs = self._children(n, depth, kinds)
            r = rng.random()
            if r < 0.3:
                eb = (0,)
            elif r < 0.45:
                eb = (1,)
            else:
                eb = (2, *gen_keys(rng, n, rng.choice(['str', 'int', 'stage2'])))
                if len(eb) - 1 != n:           # could not draw n distinct keys: fall back to positions
                    eb = (2, *[(0, i) for i in range(n)])
            if self.malformed and rng.random() < 0.5:
                m = rng.randrange(5)
                if m == 0:
                    eb = (3, rng.choice([0, 1, 4, 5]))
                elif m == 1:
                    eb = (4, rng.randrange(1, 50))
                elif m == 2:
                    eb = (2, *[(0, i) for i in range(n + rng.choice([1, 2]))])
                elif m == 3 and n > 0:
                    eb = (2, *[(0, i) for i in range(n - 1)])
            return (1, (9, cls, rng.randrange(0, 5), eb), *cs)
        raise ValueError(kind)


def gen_cfg(rng, limit, regs_mode=None):
    """(nil ns pred regs ins limit)"""
    nil = rng.random() < 0.35
    ns = rng.choice([0, 0, 1, 1, 2, 3])
    pred = rng.choice([0, 0, 0, 1, 2, 3, 4, 5]) if rng.random() < 0.97 else 6
    regs = []
    rid = 0
    for cls in range(6):
        for rns in (0, 1, 2):
            # class 5 is never registered; class 4 only in namespace 'b'; the others vary
            p = {0: 0.6, 1: 0.5, 2: 0.3}[rns]
            if cls == 5 or (cls == 4 and rns != 2):
                continue
            if rng.random() < p:
                rid += 1
                regs.append((cls, rns, rid, rng.choice([0, 0, 0, 1, 2, 3, 4])))
    ins = []
    r = rng.random()
    if r < 0.15:
        ins = [0]
    elif r < 0.3:
        ins = [rng.choice([1, 2])]
    elif r < 0.35:
        ins = [0, 1]
    elif r < 0.41:
        ins = [1, 2]
    elif r < 0.43:
        ins = [0, 1, 2]
    return (1 if nil else 0, ns, pred, tuple(regs), tuple(ins), limit)


def depth_tree(kind, depth, leaf_id=1):
    """a chain of `depth` nested one-child containers of the given kind around a leaf"""
    t = (0, leaf_id)
    for _ in range(depth):
        if kind == 'tuple':
            t = (1, (1,), t)
        elif kind == 'list':
            t = (1, (2,), t)
        elif kind == 'dict':
            t = (1, (3, (2, 97)), t)
        elif kind == 'odict':
            t = (1, (4, (2, 97)), t)
        elif kind == 'ddict':
            t = (1, (5, 1, (2, 97)), t)
        elif kind == 'deque':
            t = (1, (6,), t)
        elif kind == 'named':
            t = (1, (7, 0), t)
        elif kind == 'struct':
            t = (1, (8, 0), t, (0, 0))
        elif kind == 'custom':
            t = (1, (9, 0, 0, (0,)), t)
    return t


def obj_nodes(o):
    if o[0] == 0:
        return 1
    return 1 + sum(obj_nodes(c) for c in o[2:])


def obj_internal(o):
    if o[0] == 0:
        return 0
    return 1 + sum(obj_internal(c) for c in o[2:])


def obj_depth(o):
    if o[0] == 0:
        return 0
    return 1 + max([obj_depth(c) for c in o[2:]] or [0])


# ---------------------------------------------------------------- derived pairs
def _subtrees(o, path=()):
    yield path, o
    if o[0] == 1:
        for i, c in enumerate(o[2:]):
            yield from _subtrees(c, path + (i,))


def _replace(o, path, new):
    if not path:
        return new
    i = path[0]
    cs = list(o[2:])
    cs[i] = _replace(cs[i], path[1:], new)
    return (o[0], o[1], *cs)


def make_prefix(rng, o, p=0.3):
    """replace some non-leaf subtrees by fresh leaves: the result is a prefix of o"""
    if o[0] == 0:
        return o
    if rng.random() < p:
        return (0, 9000 + rng.randrange(1000))
    return (o[0], o[1], *[make_prefix(rng, c, p) for c in o[2:]])


def vary_dicts(rng, o):
    """same structure up to dict kind / key order / default factory / deque maxlen"""
    if o[0] == 0:
        return o
    h = o[1]
    cs = [vary_dicts(rng, c) for c in o[2:]]
    if h[0] in (3, 4, 5):
        ks = list(h[1:] if h[0] != 5 else h[2:])
        perm = list(range(len(ks)))
        if rng.random() < 0.6:
            rng.shuffle(perm)
        ks = [ks[i] for i in perm]
        cs = [cs[i] for i in perm]
        k = rng.choice([3, 4, 5]) if rng.random() < 0.6 else h[0]
        h = (k, *ks) if k != 5 else (5, rng.randrange(0, 5), *ks)
    elif h[0] == 6 and rng.random() < 0.5:
        h = (6,) if rng.random() < 0.5 else (6, len(cs) + rng.randrange(0, 3))
    return (1, h, *cs)


def local_edit(rng, o, struct_arity):
    """one local edit somewhere in o: a near-miss for equality / prefix"""
    subs = [(p, s) for p, s in _subtrees(o) if s[0] == 1]
    if not subs:
        return (1, (1,), o)
    path, s = rng.choice(subs)
    h = s[1]
    cs = list(s[2:])
    t = h[0]
    choice = rng.randrange(6)
    if choice == 0 and t in (1, 2, 6):                    # change sequence kind
        nh = rng.choice([(1,), (2,), (6,)])
        new = (1, nh, *cs)
    elif choice == 1 and t in (1, 2, 6, 7, 9):            # change arity
        if cs and rng.random() < 0.5:
            cs = cs[:-1]
        else:
            cs = cs + [(0, 8000 + rng.randrange(1000))]
        if t == 9 and h[3][0] == 2:
            h = (9, h[1], h[2], (2, *[(0, i) for i in range(len(cs))]))
        if t == 6 and len(h) > 1 and h[1] < len(cs):
            h = (6, len(cs))
        new = (1, h, *cs)
    elif choice == 2 and t in (3, 4, 5):                  # change one key
        ks = list(h[1:] if t != 5 else h[2:])
        if ks:
            i = rng.randrange(len(ks))
            nk = (2, 120, 121, rng.randrange(97, 123))
            if nk not in ks:
                ks[i] = nk
        new = (1, (t, *ks) if t != 5 else (5, h[1], *ks), *cs)
    elif choice == 3 and t == 7:                          # other namedtuple class
        new = (1, (7, (h[1] + 1) % 4), *cs)
    elif choice == 3 and t == 9:                          # other metadata / class
        new = (1, (9, h[1], h[2] + 1, h[3]), *cs) if rng.random() < 0.5 else (1, (9, (h[1] + 1) % 4, h[2], h[3]), *cs)
    elif choice == 4 and t in (3, 4, 5):                  # drop / add a key
        ks = list(h[1:] if t != 5 else h[2:])
        if ks and rng.random() < 0.5:
            ks = ks[:-1]
            cs = cs[:-1]
        else:
            nk = (2, 113, rng.randrange(97, 123))
            if nk not in ks:
                ks.append(nk)
                cs.append((0, 8000 + rng.randrange(1000)))
        new = (1, (t, *ks) if t != 5 else (5, h[1], *ks), *cs)
    elif choice == 5:                                     # None <-> leaf, or wrap
        new = (1, (0,)) if rng.random() < 0.5 else (1, (1,), s)
    else:
        new = (1, (2,), *cs) if t != 2 else (1, (1,), *cs)
    return _replace(o, path, new)


def perm_only(rng, o):
    """permute the keys (with their children) of every dict-like node, keeping the kinds"""
    if o[0] == 0:
        return o
    h = o[1]
    cs = [perm_only(rng, c) for c in o[2:]]
    if h[0] in (3, 4, 5):
        ks = list(h[1:] if h[0] != 5 else h[2:])
        perm = list(range(len(ks)))
        rng.shuffle(perm)
        ks = [ks[i] for i in perm]
        cs = [cs[i] for i in perm]
        h = (h[0], *ks) if h[0] != 5 else (5, h[1], *ks)
    return (1, h, *cs)


def flat_dicts_tree(rng, tg):
    """a small tree whose dict-like nodes have many keys and only leaf (or equal-shaped) children"""
    def node(depth):
        kind = rng.choice([3, 4, 4, 5])
        n = rng.randrange(2, 6)
        ks = gen_keys(rng, n, rng.choice(['str', 'int', 'num', 'stage2', 'unsortable']))
        cs = []
        for _ in ks:
            if depth < 2 and rng.random() < 0.25:
                cs.append(node(depth + 1))
            elif rng.random() < 0.2:
                cs.append((1, (1,), tg.leaf(), tg.leaf()))
            else:
                cs.append(tg.leaf())
        return (1, (kind, *ks) if kind != 5 else (5, rng.randrange(0, 5), *ks), *cs)
    t = node(0)
    if rng.random() < 0.5:
        t = (1, (1,), t, tg.leaf())
    return t


def wide_dicts_tree(rng, tg):
    """dict-like nodes with 3-6 keys whose children have different sizes (sibling re-ordering)"""
    def sub(depth):
        r = rng.random()
        if depth >= 3 or r < 0.3:
            return tg.leaf()
        if r < 0.6:
            return (1, (1,), *[sub(depth + 1) for _ in range(rng.randrange(0, 4))])
        kind = rng.choice([3, 4, 5])
        ks = gen_keys(rng, rng.randrange(3, 7), rng.choice(['str', 'int', 'stage2']))
        cs = [sub(depth + 1) for _ in ks]
        return (1, (kind, *ks) if kind != 5 else (5, rng.randrange(0, 5), *ks), *cs)
    kind = rng.choice([3, 4, 5])
    ks = gen_keys(rng, rng.randrange(3, 7), rng.choice(['str', 'int', 'stage2']))
    cs = [sub(1) for _ in ks]
    return (1, (kind, *ks) if kind != 5 else (5, rng.randrange(0, 5), *ks), *cs)


def nt_swap(rng, o):
    """replace the class of one namedtuple node by its sub/superclass twin (cls xor 1), or None"""
    subs = [(p, x) for p, x in _subtrees(o) if x[0] == 1 and x[1][0] == 7]
    if not subs:
        return None
    path, x = rng.choice(subs)
    return _replace(o, path, (1, (7, x[1][1] ^ 1), *x[2:]))


def gen_pair(rng, tg, struct_arity):
    """(o1, o2, label)"""
    r0 = rng.random()
    if r0 < 0.08:
        o = flat_dicts_tree(rng, tg)
        return o, perm_only(rng, o), 'permkeys'
    if r0 < 0.18:
        o = wide_dicts_tree(rng, tg)
        p = make_prefix(rng, o, rng.choice([0.0, 0.15, 0.3]))
        return (perm_only(rng, p) if rng.random() < 0.5 else p), vary_dicts(rng, o), 'widedict'
    o = tg.tree()
    r = rng.random()
    if r < 0.12:
        return o, o, 'same'
    if r < 0.40:
        return make_prefix(rng, o, rng.choice([0.15, 0.3, 0.6])), vary_dicts(rng, o) if rng.random() < 0.5 else o, 'prefix'
    if r < 0.55:
        return o, vary_dicts(rng, o), 'dictvar'
    if r < 0.72:
        sw = nt_swap(rng, o) if rng.random() < 0.4 else None
        if sw is not None:
            return make_prefix(rng, o, 0.1), sw, 'ntswap'
        return make_prefix(rng, o, 0.2), local_edit(rng, vary_dicts(rng, o) if rng.random() < 0.3 else o, struct_arity), 'nearmiss'
    if r < 0.86:
        # partially overlapping: two different prefixes of the same tree
        return make_prefix(rng, o, 0.3), make_prefix(rng, vary_dicts(rng, o) if rng.random() < 0.5 else o, 0.3), 'overlap'
    return o, tg.tree(), 'unrelated'
