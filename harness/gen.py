"""Generator of abstract inputs (trees, configurations). All randomness comes from the rng passed in."""
import random

STRUCT_ARITY = None  # filled from world.STRUCTSEQ_ARITY by the caller (keeps gen importable alone)

KEY_MIXES = ['str', 'int', 'num', 'stage2', 'unsortable', 'none', 'tuple', 'ord', 'mixed_ord']


def gen_key(rng, mix):
    if mix == 'str':
        return (2, *[rng.choice([97, 98, 99, 65, 122, 48]) for _ in range(rng.randrange(0, 4))])
    if mix == 'int':
        return (0, rng.randrange(-5, 30))
    if mix == 'num':
        return rng.choice([(0, rng.randrange(-5, 10)), (1, rng.randrange(-5, 10))])
    if mix == 'tuple':
        return (4, *[rng.randrange(0, 4) for _ in range(rng.randrange(0, 3))])
    if mix == 'ord':
        return (6, 0, rng.randrange(0, 10))
    if mix == 'mixed_ord':
        return (6, rng.randrange(0, 3), rng.randrange(0, 10))
    if mix == 'stage2':
        return rng.choice([(0, rng.randrange(0, 10)), (2, 97 + rng.randrange(0, 5)), (1, rng.randrange(0, 5)),
                           (4, rng.randrange(0, 3)), (3,), (6, rng.randrange(0, 2), rng.randrange(0, 6))])
    if mix == 'none':
        return rng.choice([(3,), (2, 97 + rng.randrange(0, 5)), (2, 97 + rng.randrange(0, 5))])
    if mix == 'unsortable':
        return rng.choice([(5, rng.randrange(0, 6)), (7, rng.randrange(0, 2), rng.randrange(0, 6)),
                           (0, rng.randrange(0, 10)), (2, 97 + rng.randrange(0, 5)), (3,)])
    raise ValueError(mix)


def gen_keys(rng, n, mix=None):
    mix = mix or rng.choice(KEY_MIXES)
    ks = []
    tries = 0
    while len(ks) < n and tries < 200:
        k = gen_key(rng, mix)
        tries += 1
        if k not in ks:
            ks.append(k)
    return ks


class TreeGen:
    def __init__(self, rng, struct_arity, max_nodes=40, max_depth=8, max_arity=5,
                 custom_classes=(0, 1, 2, 3, 4, 5), malformed=False, none_p=0.08):
        self.rng = rng
        self.struct_arity = struct_arity
        self.max_nodes = max_nodes
        self.max_depth = max_depth
        self.max_arity = max_arity
        self.custom_classes = custom_classes
        self.malformed = malformed
        self.none_p = none_p
        self.next_id = 0
        self.budget = 0

    def leaf(self):
        self.next_id += 1
        return (0, self.next_id)

    def tree(self, kinds=None):
        self.budget = self.rng.randrange(1, self.max_nodes + 1)
        return self._tree(0, kinds)

    def _children(self, n, depth, kinds):
        return [self._tree(depth + 1, kinds) for _ in range(n)]

    def _tree(self, depth, kinds=None):
        rng = self.rng
        self.budget -= 1
        if depth >= self.max_depth or self.budget <= 0 or rng.random() < 0.25:
            if rng.random() < self.none_p:
                return (1, (0,))
            return self.leaf()
        kind = rng.choice(kinds or ['tuple', 'list', 'dict', 'odict', 'ddict', 'deque', 'named', 'struct',
                                    'custom', 'none', 'dict', 'tuple'])
        n = rng.randrange(0, self.max_arity + 1)
        if kind == 'none':
            return (1, (0,))
        if kind == 'tuple':
            return (1, (1,), *self._children(n, depth, kinds))
        if kind == 'list':
            return (1, (2,), *self._children(n, depth, kinds))
        if kind in ('dict', 'odict', 'ddict'):
            ks = gen_keys(rng, n)
            cs = self._children(len(ks), depth, kinds)
            if kind == 'dict':
                return (1, (3, *ks), *cs)
            if kind == 'odict':
                return (1, (4, *ks), *cs)
            return (1, (5, rng.randrange(0, 5), *ks), *cs)
        if kind == 'deque':
            cs = self._children(n, depth, kinds)
            r = rng.random()
            if r < 0.4:
                return (1, (6,), *cs)
            if r < 0.7:
                return (1, (6, n), *cs)
            return (1, (6, n + rng.randrange(1, 4)), *cs)
        if kind == 'named':
            return (1, (7, rng.randrange(0, 4)), *self._children(n, depth, kinds))
        if kind == 'struct':
            c = rng.randrange(0, len(self.struct_arity))
            if self.struct_arity[c] > 5 and rng.random() < 0.7:
                c = rng.choice([i for i, a in enumerate(self.struct_arity) if a <= 5])
            return (1, (8, c), *self._children(self.struct_arity[c], depth, kinds))
        if kind == 'custom':
            cls = rng.choice(self.custom_classes)
            cs = self._children(n, depth, kinds)
            r = rng.random()
            if r < 0.3:
                eb = (0,)
            elif r < 0.45:
                eb = (1,)
            else:
                eb = (2, *gen_keys(rng, n, rng.choice(['str', 'int', 'stage2'])))
                if len(eb) - 1 != n:           # could not draw n distinct keys: fall back to positions
                    eb = (2, *[(0, i) for i in range(n)])
            if self.malformed and rng.random() < 0.5:
                m = rng.randrange(5)
                if m == 0:
                    eb = (3, rng.choice([0, 1, 4, 5]))
                elif m == 1:
                    eb = (4, rng.randrange(1, 50))
                elif m == 2:
                    eb = (2, *[(0, i) for i in range(n + rng.choice([1, 2]))])
                elif m == 3 and n > 0:
                    eb = (2, *[(0, i) for i in range(n - 1)])
            return (1, (9, cls, rng.randrange(0, 5), eb), *cs)
        raise ValueError(kind)


def gen_cfg(rng, limit, regs_mode=None):
    """(nil ns pred regs ins limit)"""
    nil = rng.random() < 0.35
    ns = rng.choice([0, 0, 1, 1, 2, 3])
    pred = rng.choice([0, 0, 0, 1, 2, 3, 4, 5]) if rng.random() < 0.97 else 6
    regs = []
    rid = 0
    for cls in range(6):
        for rns in (0, 1, 2):
            # class 5 is never registered; class 4 only in namespace 'b'; the others vary
            p = {0: 0.6, 1: 0.5, 2: 0.3}[rns]
            if cls == 5 or (cls == 4 and rns != 2):
                continue
            if rng.random() < p:
                rid += 1
                regs.append((cls, rns, rid, rng.choice([0, 0, 0, 1, 2, 3, 4])))
    ins = []
    r = rng.random()
    if r < 0.15:
        ins = [0]
    elif r < 0.3:
        ins = [rng.choice([1, 2])]
    elif r < 0.35:
        ins = [0, 1]
    return (1 if nil else 0, ns, pred, tuple(regs), tuple(ins), limit)


def depth_tree(kind, depth, leaf_id=1):
    """a chain of `depth` nested one-child containers of the given kind around a leaf"""
    t = (0, leaf_id)
    for _ in range(depth):
        if kind == 'tuple':
            t = (1, (1,), t)
        elif kind == 'list':
            t = (1, (2,), t)
        elif kind == 'dict':
            t = (1, (3, (2, 97)), t)
        elif kind == 'odict':
            t = (1, (4, (2, 97)), t)
        elif kind == 'ddict':
            t = (1, (5, 1, (2, 97)), t)
        elif kind == 'deque':
            t = (1, (6,), t)
        elif kind == 'named':
            t = (1, (7, 0), t)
        elif kind == 'struct':
            t = (1, (8, 0), t, (0, 0))
        elif kind == 'custom':
            t = (1, (9, 0, 0, (0,)), t)
    return t


def obj_nodes(o):
    if o[0] == 0:
        return 1
    return 1 + sum(obj_nodes(c) for c in o[2:])


def obj_internal(o):
    if o[0] == 0:
        return 0
    return 1 + sum(obj_internal(c) for c in o[2:])


def obj_depth(o):
    if o[0] == 0:
        return 0
    return 1 + max([obj_depth(c) for c in o[2:]] or [0])
