"""Translator for property C17: extracts, from the C++ sources of /repo's working tree, one abstract
program per scope of an engine mutex guard (scoped_read_lock_guard / scoped_write_lock_guard /
scoped_lock_guard), in the vocabulary of coq/theories/Conc.v:

    (0 l)  the guard is constructed (mutex number l)        ALock l
    (2)    a call that may run Python code                   ACall
    (3)    a call known not to run Python code               AWork
    (1 l)  the scope ends                                    AUnlock l

Fail closed: a call is AWork only when its name is on the allow-list below; anything unknown is ACall.
Functions of the repo that are called while a mutex is held (RegisterImpl, UnregisterImpl) are scanned
as scopes of their own, so they cannot quietly start running Python code either.
Code compiled out on a GIL build of CPython 3.12 (#ifdef Py_GIL_DISABLED, #ifdef Py_DEBUG) is removed
first.  Lambda bodies are separate programs (they run later: weak-reference callbacks).
"""
import os
import re

GUARD = re.compile(r'\b(?:const\s+)?(scoped_(?:read_|write_|recursive_)?lock_guard)\s+\w+\s*\{\s*([\w:.>-]+)\s*\}\s*;')
CALL = re.compile(r'((?:[A-Za-z_]\w*(?:\.|->|::))*)([A-Za-z_][\w]*)\s*(?:<[^<>();{}]*>)?\s*\(')
KEYWORDS = {'if', 'for', 'while', 'switch', 'return', 'sizeof', 'catch', 'static_cast', 'reinterpret_cast',
            'const_cast', 'dynamic_cast', 'decltype', 'noexcept', 'defined', 'alignof', 'throw', 'else',
            'likely', 'unlikely'}

# calls that cannot run Python code: C++ container / smart pointer operations, pybind11 handle
# operations that only touch reference counts upwards, optree's assertion macros (they throw C++
# exceptions), and the engine's own lock-free helpers
PURE = {
    'find', 'end', 'begin', 'emplace', 'emplace_back', 'erase', 'size', 'empty', 'insert', 'clear', 'count', 'at',
    'make_pair', 'make_shared', 'move', 'get_id', 'pop_back', 'back', 'push_back', 'reserve',
    'inc_ref', 'reinterpret_borrow', 'is', 'ptr', 'release', 'ssize_t_cast',
    'EXPECT_TRUE', 'EXPECT_FALSE', 'EXPECT_EQ', 'EXPECT_NE', 'EXPECT_LE', 'EXPECT_LT', 'EXPECT_GE', 'EXPECT_GT',
    'INTERNAL_ERROR',
    'weakref', 'cpp_function',      # creating a weak reference object with a C++ callback runs no Python code
    'Singleton',                    # function-local static, initialised at import (trusted, see DESIGN.md)
    'IsDictInsertionOrdered',       # takes a shared lock on the (already share-held) mode mutex, looks up two sets
    'remove_const_t', 'element_type',
}
# repo functions that are called with a mutex held: allowed, and scanned as scopes of their own
CALLED_UNDER_LOCK = {'RegisterImpl', 'UnregisterImpl'}
# dec_ref may run arbitrary finalisers: allowed only on these receivers (the weak-reference object that is
# being called back, and the cached tuple of field-name strings), as written in the weakref callbacks
SAFE_DEC_REF_RECEIVERS = {'weakref.', 'it->second.'}
# not an API operation: the atexit cleanup of the registry (drops its references with the lock held)
EXEMPT_FUNCTIONS = {'Clear'}


def strip_comments_and_strings(src):
    out = []
    i, n = 0, len(src)
    while i < n:
        c = src[i]
        if src.startswith('//', i):
            j = src.find('\n', i)
            i = n if j < 0 else j
        elif src.startswith('/*', i):
            j = src.find('*/', i + 2)
            seg = src[i:(n if j < 0 else j + 2)]
            out.append(''.join(ch if ch == '\n' else ' ' for ch in seg))
            i = n if j < 0 else j + 2
        elif c == '"':
            j = i + 1
            while j < n and src[j] != '"':
                j += 2 if src[j] == '\\' else 1
            out.append('""')
            i = j + 1
        elif c == "'":
            j = i + 1
            while j < n and src[j] != "'":
                j += 2 if src[j] == '\\' else 1
            out.append("' '")
            i = j + 1
        else:
            out.append(c)
            i += 1
    return ''.join(out)


def strip_compiled_out(src):
    """remove #ifdef Py_GIL_DISABLED / Py_DEBUG branches (keep the #else branch); keep #ifndef bodies"""
    lines = src.split('\n')
    out = []
    stack = []     # entries: [keep_now, interesting]
    for ln in lines:
        s = ln.strip()
        if s.startswith('#if'):
            m = re.match(r'#\s*ifdef\s+(Py_GIL_DISABLED|Py_DEBUG)\b', s)
            m2 = re.match(r'#\s*ifndef\s+(Py_GIL_DISABLED|Py_DEBUG)\b', s)
            if m:
                stack.append([False, True])
            elif m2:
                stack.append([True, True])
            else:
                stack.append([True, False])
            out.append('')
            continue
        if s.startswith('#else') or s.startswith('#elif'):
            if stack and stack[-1][1]:
                stack[-1][0] = not stack[-1][0]
            out.append('')
            continue
        if s.startswith('#endif'):
            if stack:
                stack.pop()
            out.append('')
            continue
        out.append(ln if all(k for k, _ in stack) else '')
    return '\n'.join(out)


def match_brace(src, open_pos):
    depth = 0
    for i in range(open_pos, len(src)):
        if src[i] == '{':
            depth += 1
        elif src[i] == '}':
            depth -= 1
            if depth == 0:
                return i
    return len(src) - 1


def enclosing_open(src, pos):
    depth = 0
    for i in range(pos - 1, -1, -1):
        if src[i] == '}':
            depth += 1
        elif src[i] == '{':
            if depth == 0:
                return i
            depth -= 1
    return 0


LAMBDA = re.compile(r'\[[^\[\]]*\]\s*\([^()]*\)\s*(?:mutable\s*)?(?:->\s*[\w:<>&*\s]+?)?\s*\{')


def remove_lambda_bodies(body):
    out, i = [], 0
    while True:
        m = LAMBDA.search(body, i)
        if not m:
            out.append(body[i:])
            break
        op = m.end() - 1
        cl = match_brace(body, op)
        out.append(body[i:op])
        out.append('{}')
        i = cl + 1
    return ''.join(out)


def calls_in(body):
    res = []
    for m in CALL.finditer(body):
        recv, name = m.group(1), m.group(2)
        if name in KEYWORDS:
            continue
        if name == 'dec_ref':
            res.append('dec_ref(safe receiver)' if recv in SAFE_DEC_REF_RECEIVERS else f'{recv}dec_ref')
            continue
        # a declaration such as `const auto it = ...` never matches; constructor-style casts of builtin
        # types are harmless
        if name in ('bool', 'int', 'ssize_t', 'size_t', 'void'):
            continue
        res.append(name)
    return res


def function_name_at(src, open_pos):
    """name of the function whose body opens at open_pos (best effort)"""
    head = src[max(0, open_pos - 400):open_pos]
    m = list(re.finditer(r'([A-Za-z_]\w*)\s*(?:<[^<>]*>)?\s*\([^{};]*\)\s*(?:const\s*)?(?:noexcept\s*)?(?:->\s*[\w:<>&*\s]+)?\s*$', head, re.S))
    return m[-1].group(1) if m else None


def outermost_function(src, pos):
    """name of the function definition enclosing pos"""
    op = enclosing_open(src, pos)
    name = None
    while True:
        nm = function_name_at(src, op)
        if nm and nm not in KEYWORDS:
            name = nm
        if op == 0:
            break
        nop = enclosing_open(src, op)
        if nop == op:
            break
        op = nop
    return name


def scan(repo):
    files = []
    for top in ('src', 'include'):
        for dp, dn, fn in sorted(os.walk(os.path.join(repo, top))):
            dn.sort()
            for f in sorted(fn):
                if f.endswith(('.cpp', '.h')) and f != 'synchronization.h':
                    files.append(os.path.join(dp, f))
    mutexes = {}
    scopes = []
    for path in files:
        raw = open(path).read()
        src = strip_compiled_out(strip_comments_and_strings(raw))
        rel = os.path.relpath(path, repo)
        for m in GUARD.finditer(src):
            line = src.count('\n', 0, m.start()) + 1
            fn = outermost_function(src, m.start())
            op = enclosing_open(src, m.start())
            cl = match_brace(src, op)
            body = remove_lambda_bodies(src[m.end():cl])
            mid = mutexes.setdefault(rel.split('/')[-1] + ':' + m.group(2), len(mutexes))
            calls = calls_in(body)
            scopes.append({'file': rel, 'line': line, 'function': fn, 'guard': m.group(1), 'mutex': m.group(2),
                           'mutex_id': mid, 'calls': calls, 'kind': 'guard scope',
                           'exempt': fn in EXEMPT_FUNCTIONS})
        # repo functions that run with a mutex held
        for name in sorted(CALLED_UNDER_LOCK):
            for m in re.finditer(r'\b' + name + r'\s*\([^;{}]*\)\s*\{', src):
                op = m.end() - 1
                cl = match_brace(src, op)
                body = remove_lambda_bodies(src[op + 1:cl])
                line = src.count('\n', 0, m.start()) + 1
                scopes.append({'file': rel, 'line': line, 'function': name, 'guard': '(caller holds the registry lock)',
                               'mutex': 'sm_mutex', 'mutex_id': 1000, 'calls': calls_in(body),
                               'kind': 'function called under lock', 'exempt': False})
    return scopes


def program_of(scope):
    """the abstract program: ALock; one act per call; AUnlock"""
    prog = [(0, scope['mutex_id'])]
    unknown = []
    for c in scope['calls']:
        if c in PURE or c in CALLED_UNDER_LOCK or c == 'dec_ref(safe receiver)':
            prog.append((3,))
        else:
            prog.append((2,))
            unknown.append(c)
    prog.append((1, scope['mutex_id']))
    return tuple(prog), unknown


if __name__ == '__main__':
    import sys
    for s in scan(sys.argv[1] if len(sys.argv) > 1 else '/repo'):
        p, unk = program_of(s)
        print(f"{s['file']}:{s['line']} {s['function']} {s['guard']}{{{s['mutex']}}} calls={s['calls']} "
              f"{'EXEMPT ' if s['exempt'] else ''}{'MAY RUN PYTHON: ' + str(unk) if unk else 'ok'}")
